CONSTANTS
  PreferNoAuth = FALSE
SPECIFICATION Spec
INVARIANTS GateReal NoCredsReal
POSTCONDITION TraceAccepted
CHECK_DEADLOCK FALSE
