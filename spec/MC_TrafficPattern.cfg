CONSTANTS
  MinClamp = TRUE
INIT Init
NEXT Next
INVARIANTS NonceSound
CHECK_DEADLOCK FALSE
