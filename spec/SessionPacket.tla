--------------------------- MODULE SessionPacket ---------------------------
(***************************************************************************)
(* Design model of one mieru proxy session on the UDP transport            *)
(* (pkg/protocol/session.go + underlay_packet.go): two endpoints C and S,  *)
(* a network that drops, duplicates and reorders datagrams.                *)
(*                                                                         *)
(* One action per critical section of the code:                            *)
(*   AppWrite    Session.Write / writeChunk (insert into sendQueue; the     *)
(*               client's first write creates the open request, which may  *)
(*               piggyback the first unit)                                 *)
(*   OutputNew   runOutputOncePacket, "send new segments" part             *)
(*   Retransmit  runOutputOncePacket, "resend segments in sendBuf" part    *)
(*   SendAck     runOutputOncePacket, ack / heartbeat part                  *)
(*   Deliver     PacketUnderlay.RunEventLoop + Session.input                *)
(*   AppRead     Session.Read taking one segment from recvQueue            *)
(*   CloseBegin / CloseEmit / CloseFlush   Session.closeWithError           *)
(*   GiveUp      txCount reaches the limit                                 *)
(* The guards are liberal where C02/C03/C13 do not care (timers are        *)
(* abstracted: a retransmission happens only when nothing that could       *)
(* answer the previous transmission is still in flight) and tight where     *)
(* they do (in-order hand-over, cumulative ack, deferred data, close).      *)
(***************************************************************************)
EXTENDS Integers, Sequences, FiniteSets, TLC

CONSTANTS NC,        \* units the client application writes
          NS,        \* units the server application writes
          Win,       \* send window (segments in flight)
          MaxTx,     \* txCountLimit
          Drops,     \* drop budget of the network
          Dups,      \* duplication budget
          Piggy,     \* TRUE: first client unit rides on the open request
          CloseC,    \* client application closes after its last write
          InOrderClose  \* TRUE: the fixed receiver (close ahead of nextRecv => error, not EOF)

Ends == {"C", "S"}
Peer(e) == IF e = "C" THEN "S" ELSE "C"
Total(e) == IF e = "C" THEN NC ELSE NS

VARIABLES st,        \* [Ends -> {"none","attached","established","closing","closed"}]
          appW,      \* units written so far
          nextSend, sendQ, sendBuf,
          nextRecv, recvBuf, rq,   \* rq: units handed to recvQueue, in order
          appR,      \* units the application has read
          ackDue,    \* ackOnDataRecv
          net,       \* set of datagrams in flight
          drops, dups,
          closeSeq,  \* seq assigned to the close request, -1 if none
          closeSent, \* the close request (or an ack carrying seq >= closeSeq) was emitted
          eof,       \* [Ends -> {"", "clean", "error"}] what Read reports after draining
          everRx,    \* ghost: seqs of the peer ever delivered to this endpoint
          fates      \* ghost: fault decisions taken, by datagram identity

vars == <<st, appW, nextSend, sendQ, sendBuf, nextRecv, recvBuf, rq, appR, ackDue, net, drops, dups,
          closeSeq, closeSent, eof, everRx, fates>>

Seg(seq, kind, unit) == [seq |-> seq, kind |-> kind, unit |-> unit]
Dg(src, kind, seq, unit, una, tx, copy) ==
  [src |-> src, kind |-> kind, seq |-> seq, unit |-> unit, una |-> una, tx |-> tx, copy |-> copy]

Init == /\ st = [e \in Ends |-> IF e = "C" THEN "attached" ELSE "none"]
        /\ appW = [e \in Ends |-> 0]
        /\ nextSend = [e \in Ends |-> 0]
        /\ sendQ = [e \in Ends |-> <<>>]
        /\ sendBuf = [e \in Ends |-> {}]
        /\ nextRecv = [e \in Ends |-> 0]
        /\ recvBuf = [e \in Ends |-> {}]
        /\ rq = [e \in Ends |-> <<>>]
        /\ appR = [e \in Ends |-> 0]
        /\ ackDue = [e \in Ends |-> FALSE]
        /\ net = {}
        /\ drops = Drops /\ dups = Dups
        /\ closeSeq = [e \in Ends |-> -1]
        /\ closeSent = [e \in Ends |-> FALSE]
        /\ eof = [e \in Ends |-> ""]
        /\ everRx = [e \in Ends |-> {}]
        /\ fates = {}

Open(e) == st[e] \in {"attached", "established"}

---------------------------------------------------------------------------
(* Application writes one unit. *)
AppWrite(e) ==
  /\ Open(e) /\ closeSeq[e] = -1
  /\ appW[e] < Total(e)
  /\ IF e = "C" /\ nextSend[e] = 0
     THEN \* first client write: the open request, with or without the unit
          IF Piggy
          THEN /\ sendQ' = [sendQ EXCEPT ![e] = Append(@, Seg(0, "open", 1))]
               /\ nextSend' = [nextSend EXCEPT ![e] = 1]
          ELSE /\ sendQ' = [sendQ EXCEPT ![e] = @ \o <<Seg(0, "open", 0), Seg(1, "data", 1)>>]
               /\ nextSend' = [nextSend EXCEPT ![e] = 2]
     ELSE /\ sendQ' = [sendQ EXCEPT ![e] = Append(@, Seg(nextSend[e], "data", appW[e] + 1))]
          /\ nextSend' = [nextSend EXCEPT ![e] = @ + 1]
  /\ appW' = [appW EXCEPT ![e] = @ + 1]
  /\ UNCHANGED <<st, sendBuf, nextRecv, recvBuf, rq, appR, ackDue, net, drops, dups, closeSeq, closeSent,
                 eof, everRx, fates>>

(* The client defers data while the open request is not answered. *)
Deferred(e) == e = "C" /\ st[e] = "attached" /\ sendQ[e] # <<>> /\ Head(sendQ[e]).kind = "data"

OutputNew(e) ==
  /\ st[e] \in {"attached", "established", "closing"}
  /\ sendQ[e] # <<>>
  /\ Cardinality(sendBuf[e]) < Win
  /\ ~Deferred(e)
  /\ LET s == Head(sendQ[e]) IN
     /\ sendQ' = [sendQ EXCEPT ![e] = Tail(@)]
     /\ sendBuf' = [sendBuf EXCEPT ![e] = @ \cup {[seg |-> s, tx |-> 1]}]
     /\ net' = net \cup {Dg(e, s.kind, s.seq, s.unit, nextRecv[e], 1, 0)}
     /\ closeSent' = [closeSent EXCEPT ![e] = @ \/ (closeSeq[e] >= 0 /\ s.seq >= closeSeq[e])]
  /\ UNCHANGED <<st, appW, nextSend, nextRecv, recvBuf, rq, appR, ackDue, drops, dups, closeSeq, eof,
                 everRx, fates>>

(* Nothing in flight can still answer this segment: its datagrams are gone
   and no datagram from the peer acknowledges it. *)
PeerWillAnswer(e, seq) ==
  /\ nextRecv[Peer(e)] > seq
  /\ st[Peer(e)] = "established"
  /\ (ackDue[Peer(e)] \/ (sendQ[Peer(e)] # <<>> /\ Cardinality(sendBuf[Peer(e)]) < Win))
TimedOut(e, b) ==
  /\ ~\E d \in net : d.src = e /\ d.kind # "ack" /\ d.seq <= b.seg.seq    \* nothing that could complete the prefix
  /\ ~\E d \in net : d.src = Peer(e) /\ d.una > b.seg.seq
  /\ ~PeerWillAnswer(e, b.seg.seq)

Retransmit(e) ==
  /\ st[e] \in {"attached", "established", "closing"}
  /\ \E b \in sendBuf[e] :
       /\ \A c \in sendBuf[e] : c.seg.seq >= b.seg.seq   \* the oldest timer fires first
       /\ b.tx < MaxTx
       /\ TimedOut(e, b)
       /\ sendBuf' = [sendBuf EXCEPT ![e] = (@ \ {b}) \cup {[b EXCEPT !.tx = @ + 1]}]
       /\ net' = net \cup {Dg(e, b.seg.kind, b.seg.seq, b.seg.unit, nextRecv[e], b.tx + 1, 0)}
  /\ UNCHANGED <<st, appW, nextSend, sendQ, nextRecv, recvBuf, rq, appR, ackDue, drops, dups, closeSeq,
                 closeSent, eof, everRx, fates>>

(* txCount reached the limit and the timer fired again: the session is abandoned. *)
GiveUp(e) ==
  /\ st[e] \in {"attached", "established"}
  /\ \E b \in sendBuf[e] : b.tx >= MaxTx /\ TimedOut(e, b)
  /\ st' = [st EXCEPT ![e] = "closed"]
  /\ eof' = [eof EXCEPT ![e] = "error"]
  /\ sendQ' = [sendQ EXCEPT ![e] = <<>>]
  /\ sendBuf' = [sendBuf EXCEPT ![e] = {}]
  /\ UNCHANGED <<appW, nextSend, nextRecv, recvBuf, rq, appR, ackDue, net, drops, dups, closeSeq, closeSent,
                 everRx, fates>>

(* Ack / heartbeat: not while the client session is still opening. *)
SendAck(e) ==
  /\ st[e] = "established"
  /\ ackDue[e]
  /\ net' = net \cup {Dg(e, "ack", nextSend[e] - 1, 0, nextRecv[e], 0, 0)}
  /\ ackDue' = [ackDue EXCEPT ![e] = FALSE]
  /\ closeSent' = [closeSent EXCEPT ![e] = @ \/ (closeSeq[e] >= 0 /\ nextSend[e] - 1 >= closeSeq[e])]
  /\ UNCHANGED <<st, appW, nextSend, sendQ, sendBuf, nextRecv, recvBuf, rq, appR, drops, dups, closeSeq,
                 eof, everRx, fates>>

(* A heartbeat re-announces the cumulative ack when the peer still waits for one. *)
Heartbeat(e) ==
  /\ st[e] = "established"
  /\ ~ackDue[e]
  /\ \E b \in sendBuf[Peer(e)] : b.seg.seq < nextRecv[e]      \* the peer has not seen our ack
  /\ ~\E d \in net : d.src = e /\ d.una >= nextRecv[e]
  /\ net' = net \cup {Dg(e, "ack", nextSend[e] - 1, 0, nextRecv[e], 0, 0)}
  /\ UNCHANGED <<st, appW, nextSend, sendQ, sendBuf, nextRecv, recvBuf, rq, appR, ackDue, drops, dups,
                 closeSeq, closeSent, eof, everRx, fates>>

---------------------------------------------------------------------------
(* Receiver side. *)
AckUpTo(e, una) == {b \in sendBuf[e] : b.seg.seq >= una}

RECURSIVE Drain(_, _, _)
\* move in-order segments from recvBuf to the queue: returns <<nextRecv, recvBuf, unitsAppended>>
Drain(n, buf, acc) ==
  IF \E s \in buf : s.seq = n
  THEN LET s == CHOOSE x \in buf : x.seq = n
       IN Drain(n + 1, buf \ {s}, IF s.unit > 0 THEN Append(acc, s.unit) ELSE acc)
  ELSE <<n, {s \in buf : s.seq > n}, acc>>

\* data-bearing segment (open / openresp / data) arriving at e
InputData(e, d) ==
  LET buf1 == IF d.seq >= nextRecv[e] THEN recvBuf[e] \cup {Seg(d.seq, d.kind, d.unit)} ELSE recvBuf[e]
      r == Drain(nextRecv[e], buf1, <<>>)
  IN /\ nextRecv' = [nextRecv EXCEPT ![e] = r[1]]
     /\ recvBuf' = [recvBuf EXCEPT ![e] = r[2]]
     /\ rq' = [rq EXCEPT ![e] = @ \o r[3]]
     /\ ackDue' = [ackDue EXCEPT ![e] = TRUE]
     /\ everRx' = [everRx EXCEPT ![e] = @ \cup {d.seq}]

Take(d) == net' = net \ {d}

DeliverOpen(d) ==
  /\ d.kind = "open" /\ d.src = "C"
  /\ Take(d)
  /\ IF st["S"] = "none"
     THEN /\ InputData("S", d)
          /\ st' = [st EXCEPT !["S"] = "established"]
          /\ sendQ' = [sendQ EXCEPT !["S"] = Append(@, Seg(nextSend["S"], "openresp", 0))]
          /\ nextSend' = [nextSend EXCEPT !["S"] = @ + 1]
          /\ UNCHANGED sendBuf
     ELSE IF st["S"] = "established"
          THEN /\ InputData("S", d)      \* duplicate: ignored by recvBuf, still acknowledged
               /\ UNCHANGED <<st, sendQ, nextSend, sendBuf>>
          ELSE UNCHANGED <<st, sendQ, nextSend, sendBuf, nextRecv, recvBuf, rq, ackDue, everRx>>
  /\ UNCHANGED <<appW, appR, drops, dups, closeSeq, closeSent, eof, fates>>

DeliverData(d) ==
  /\ d.kind \in {"data", "openresp"}
  /\ Take(d)
  /\ LET e == Peer(d.src) IN
     IF st[e] \in {"attached", "established"}
     THEN /\ sendBuf' = [sendBuf EXCEPT ![e] = AckUpTo(e, d.una)]
          /\ InputData(e, d)
          /\ st' = IF e = "C" /\ d.kind = "openresp" THEN [st EXCEPT !["C"] = "established"] ELSE st
     ELSE UNCHANGED <<sendBuf, nextRecv, recvBuf, rq, ackDue, everRx, st>>
  /\ UNCHANGED <<appW, nextSend, sendQ, appR, drops, dups, closeSeq, closeSent, eof, fates>>

DeliverAck(d) ==
  /\ d.kind = "ack"
  /\ Take(d)
  /\ LET e == Peer(d.src) IN
     IF st[e] \in {"attached", "established", "closing"}
     THEN sendBuf' = [sendBuf EXCEPT ![e] = AckUpTo(e, d.una)]
     ELSE UNCHANGED sendBuf
  /\ UNCHANGED <<st, appW, nextSend, sendQ, nextRecv, recvBuf, rq, appR, ackDue, drops, dups, closeSeq,
                 closeSent, eof, everRx, fates>>

(* The close request is acted on when it is dispatched, not in sequence order. *)
DeliverClose(d) ==
  /\ d.kind = "close"
  /\ Take(d)
  /\ LET e == Peer(d.src) IN
     IF st[e] \in {"attached", "established"}
     THEN /\ st' = [st EXCEPT ![e] = "closed"]
          /\ eof' = [eof EXCEPT ![e] = IF InOrderClose /\ d.seq > nextRecv[e] THEN "error" ELSE "clean"]
          /\ sendQ' = [sendQ EXCEPT ![e] = <<>>]
          /\ sendBuf' = [sendBuf EXCEPT ![e] = {}]
     ELSE UNCHANGED <<st, eof, sendQ, sendBuf>>
  /\ UNCHANGED <<appW, nextSend, nextRecv, recvBuf, rq, appR, ackDue, drops, dups, closeSeq, closeSent,
                 everRx, fates>>

Deliver == \E d \in net : DeliverOpen(d) \/ DeliverData(d) \/ DeliverAck(d) \/ DeliverClose(d)

Ident(d) == [src |-> d.src, kind |-> d.kind, seq |-> d.seq, tx |-> d.tx]

Drop == /\ drops > 0
        /\ \E d \in net : /\ d.copy = 0
                          /\ net' = net \ {d}
                          /\ fates' = fates \cup {[id |-> Ident(d), fate |-> "drop"]}
        /\ drops' = drops - 1
        /\ UNCHANGED <<st, appW, nextSend, sendQ, sendBuf, nextRecv, recvBuf, rq, appR, ackDue, dups,
                       closeSeq, closeSent, eof, everRx>>

Dup == /\ dups > 0
       /\ \E d \in net : /\ d.copy = 0 /\ d.kind # "ack"
                         /\ [d EXCEPT !.copy = 1] \notin net
                         /\ net' = net \cup {[d EXCEPT !.copy = 1]}
                         /\ fates' = fates \cup {[id |-> Ident(d), fate |-> "dup"]}
       /\ dups' = dups - 1
       /\ UNCHANGED <<st, appW, nextSend, sendQ, sendBuf, nextRecv, recvBuf, rq, appR, ackDue, drops,
                      closeSeq, closeSent, eof, everRx>>

AppRead(e) ==
  /\ appR[e] < Len(rq[e])
  /\ appR' = [appR EXCEPT ![e] = @ + 1]
  /\ UNCHANGED <<st, appW, nextSend, sendQ, sendBuf, nextRecv, recvBuf, rq, ackDue, net, drops, dups,
                 closeSeq, closeSent, eof, everRx, fates>>

---------------------------------------------------------------------------
(* Graceful close by the client application after its last write. *)
CloseBegin(e) ==
  /\ e = "C" /\ CloseC
  /\ st[e] \in {"attached", "established"} /\ closeSeq[e] = -1
  /\ appW[e] = Total(e) /\ nextSend[e] > 0
  /\ closeSeq' = [closeSeq EXCEPT ![e] = nextSend[e]]
  /\ sendQ' = [sendQ EXCEPT ![e] = Append(@, Seg(nextSend[e], "close", 0))]
  /\ nextSend' = [nextSend EXCEPT ![e] = @ + 1]
  /\ st' = [st EXCEPT ![e] = "closing"]
  /\ UNCHANGED <<appW, sendBuf, nextRecv, recvBuf, rq, appR, ackDue, net, drops, dups, closeSent, eof,
                 everRx, fates>>

(* The bounded wait expired (window closed or data deferred): the close
   request is emitted directly, overtaking everything still queued. *)
CloseTimeout(e) ==
  /\ st[e] = "closing" /\ ~closeSent[e]
  /\ (Cardinality(sendBuf[e]) >= Win \/ Deferred(e))
  /\ net' = net \cup {Dg(e, "close", closeSeq[e], 0, nextRecv[e], 1, 0)}
  /\ closeSent' = [closeSent EXCEPT ![e] = TRUE]
  /\ UNCHANGED <<st, appW, nextSend, sendQ, sendBuf, nextRecv, recvBuf, rq, appR, ackDue, drops, dups,
                 closeSeq, eof, everRx, fates>>

(* After the close request left, both send structures are dropped. *)
CloseFlush(e) ==
  /\ st[e] = "closing" /\ closeSent[e]
  /\ sendQ' = [sendQ EXCEPT ![e] = <<>>]
  /\ sendBuf' = [sendBuf EXCEPT ![e] = {}]
  /\ st' = [st EXCEPT ![e] = "closed"]
  /\ UNCHANGED <<appW, nextSend, nextRecv, recvBuf, rq, appR, ackDue, net, drops, dups, closeSeq, closeSent,
                 eof, everRx, fates>>

Protocol(e) == OutputNew(e) \/ Retransmit(e) \/ SendAck(e) \/ Heartbeat(e)

Next == \/ \E e \in Ends : AppWrite(e) \/ Protocol(e) \/ GiveUp(e) \/ AppRead(e)
                           \/ CloseBegin(e) \/ CloseTimeout(e) \/ CloseFlush(e)
        \/ Deliver \/ Drop \/ Dup

Fair == /\ \A e \in Ends : WF_vars(AppWrite(e)) /\ WF_vars(Protocol(e)) /\ WF_vars(AppRead(e))
        /\ WF_vars(Deliver)

Spec == Init /\ [][Next]_vars /\ Fair

---------------------------------------------------------------------------
(* Properties. *)
Units(n) == [k \in 1..n |-> k]

\* C02 safety: what an application has been given is a prefix of what the peer wrote, in order, once
PrefixOK == \A e \in Ends : /\ Len(rq[e]) <= appW[Peer(e)]
                            /\ rq[e] = Units(Len(rq[e]))

\* C13: the cumulative ack never runs ahead of receipt
AckSound == \A e \in Ends : \A n \in 0..(nextRecv[e] - 1) : n \in everRx[e]
AckOnWire == \A d \in net : \A n \in 0..(d.una - 1) : n \in everRx[d.src]

\* C13: a peer that trusts acks never discards what the other side still needs
NoEarlyDiscard == \A e \in Ends :
   st[e] \in {"attached", "established"} =>
      \A n \in 0..(nextSend[e] - 1) :
         (n >= nextRecv[Peer(e)] /\ st[Peer(e)] \in {"none", "attached", "established"})
            => \/ \E b \in sendBuf[e] : b.seg.seq = n
               \/ \E k \in 1..Len(sendQ[e]) : sendQ[e][k].seq = n

\* C03: a clean end of stream only after everything written before the close
CloseNoTrunc == \A e \in Ends : eof[e] = "clean" => Len(rq[e]) = appW[Peer(e)]

\* C02 progress, safety form: with both ends open and data outstanding, the protocol can move
Outstanding == \E e \in Ends : appR[e] < appW[Peer(e)]
BothOpen == \A e \in Ends : st[e] \in {"attached", "established"} \/ (e = "S" /\ st[e] = "none")
NoStall == (BothOpen /\ Outstanding) =>
             (ENABLED Deliver \/ \E e \in Ends : ENABLED Protocol(e) \/ ENABLED AppRead(e))

\* C02: the connection is not abandoned while the network stays within its budget
NotAbandoned == (Drops < MaxTx) => \A e \in Ends : ~(st[e] = "closed" /\ eof[e] = "error" /\ closeSeq[Peer(e)] = -1)

AllDelivered == \A e \in Ends : appR[e] = Total(Peer(e))
Progress == <>(AllDelivered \/ \E e \in Ends : st[e] \in {"closing", "closed"})
ProgressNoClose == <>AllDelivered

Done == AllDelivered /\ net = {}
=============================================================================
