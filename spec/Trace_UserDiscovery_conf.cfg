SPECIFICATION Spec
INVARIANTS Conforms
POSTCONDITION TraceAccepted
CHECK_DEADLOCK FALSE
