// Package extra holds bindings for specifications that go beyond the listed properties (DESIGN 12.8).
// scheduler_test.go replays behaviours of spec/Scheduler.tla on the real protocol.ScheduleController in virtual time and compares
// every answer.
package extra

import (
	"bufio"
	"encoding/json"
	"fmt"
	"os"
	"strings"
	"testing"
	"testing/synctest"
	"time"

	"github.com/enfein/mieru/v3/pkg/protocol"
)

type sstep struct {
	Op  string          `json:"op"`
	Arg int             `json:"arg"`
	Res json.RawMessage `json:"res"`
}

type query struct {
	Disabled    bool `json:"disabled"`
	Idle        bool `json:"idle"`
	Distimezero bool `json:"distimezero"`
}

func TestSchedulerBehaviours(t *testing.T) {
	in := os.Getenv("VERIF_IN")
	if in == "" {
		t.Skip("VERIF_IN not set")
	}
	f, err := os.Open(in)
	if err != nil {
		t.Fatal(err)
	}
	defer f.Close()
	out, _ := os.Create(os.Getenv("VERIF_OUT"))
	defer out.Close()
	sc := bufio.NewScanner(f)
	sc.Buffer(make([]byte, 1<<20), 1<<24)
	n, bad := 0, 0
	for sc.Scan() {
		line := strings.TrimSpace(sc.Text())
		if line == "" {
			continue
		}
		var steps []sstep
		if err := json.Unmarshal([]byte(line), &steps); err != nil {
			t.Fatal(err)
		}
		n++
		synctest.Test(t, func(t *testing.T) {
			time.Sleep(1000 * time.Second) // the model starts at second 1000, away from the zero time
			c := &protocol.ScheduleController{}
			for k, st := range steps {
				var want, got string
				switch st.Op {
				case "inc":
					got, want = fmt.Sprint(c.IncPending()), string(st.Res)
				case "dec":
					c.DecPending()
				case "trydisable":
					got, want = fmt.Sprint(c.TryDisableIdle()), string(st.Res)
				case "setremaining":
					c.SetRemainingTime(time.Duration(st.Arg) * time.Second)
				case "advance":
					time.Sleep(time.Duration(st.Arg) * time.Second)
				case "query":
					var q query
					json.Unmarshal(st.Res, &q)
					want = fmt.Sprintf("%v %v %v", q.Disabled, q.Idle, q.Distimezero)
					got = fmt.Sprintf("%v %v %v", c.IsDisabled(), c.Idle(), c.DisableTime().IsZero())
				}
				if got != want {
					bad++
					fmt.Fprintf(out, "{\"behaviour\":%d,\"step\":%d,\"op\":%q,\"spec\":%q,\"real\":%q}\n", n, k, st.Op, want, got)
					return
				}
			}
		})
	}
	fmt.Fprintf(out, "{\"behaviours\":%d,\"disagreements\":%d}\n", n, bad)
}
