"""C02 - UDP transport: reliable, ordered, exactly-once; progress under fair loss.

design spec   spec/SessionPacket.tla  (TLC exhaustive: PrefixOK, NoStall, NotAbandoned; liveness Progress)
spec -> code  every fault schedule under which the model completes is replayed, keyed by datagram identity,
              on a real client mux + server mux over simnet in virtual time
code -> spec  every recorded trace (incl. sustained random loss/dup/reorder runs, several MTUs, patterns,
              several sessions per underlay) is validated by TLC against spec/Trace_Session.tla
"""
import json
import random
import shutil

import sessions
import vlib
from vlib import Inconclusive

INVS = ["ReadExact", "NoSpuriousEOF", "Completes", "TxContiguous", "Attributed", "OnTime"]

QUICK_CFGS = ["MC_SP_a", "MC_SP_b", "MC_SP_c", "MC_SP_d"]
THOROUGH_CFGS = ["MC_SP_q1", "MC_SP_q2"]

CFG_PARAMS = {  # cfg -> (NC, NS, Piggy, CloseC)
    "MC_SP_a": (2, 0, False, False), "MC_SP_b": (1, 1, True, False), "MC_SP_c": (2, 0, False, True),
    "MC_SP_d": (2, 1, True, True), "MC_SP_q1": (2, 1, False, False), "MC_SP_q2": (2, 0, True, True),
}


def model(ctx, cfgs, want_close=None):
    """Run the design model; return {cfg: [fate tables]} (deduplicated)."""
    out = {}
    for cfg in cfgs:
        res = vlib.tlc("MC_SessionPacket", cfg, timeout=1500, env={"VERIF_DUMP": "fates"}, heap="20g")
        if res.violated:
            raise Inconclusive("design model %s violates %s (model-only counterexample; fix the spec):\n%s"
                               % (cfg, res.violated, (res.trace or [""])[-1][-1500:]))
        ctx.add_tlc(res, "SessionPacket exhaustive " + cfg)
        seen, tables = set(), []
        for _t, rec in res.prints:
            key = json.dumps(sorted((json.dumps(f, sort_keys=True) for f in rec["fates"])))
            if key not in seen:
                seen.add(key)
                tables.append(rec)
        out[cfg] = tables
    return out


def liveness(ctx):
    res = vlib.tlc("MC_SessionPacket", "MC_SP_live", timeout=1500, heap="20g")
    if res.violated:
        raise Inconclusive("design model violates %s under fairness (model-only; fix the spec)" % res.violated)
    ctx.add_tlc(res, "SessionPacket liveness (ProgressNoClose under WF, drop budget < MaxTx)")


def faults_of(table, lag=0):
    rules = []
    for f in table["fates"]:
        i = f["id"]
        r = {"ep": i["src"], "kind": i["kind"], "s": -1, "seq": i["seq"], "tx": i["tx"], "fate": f["fate"], "n": 1}
        if i["kind"] == "ack":
            r["tx"] = 0
        if f["fate"] == "dup":
            r["ms"] = lag
        rules.append(r)
    return rules


def scenario_from(cfg, k, table, seed, mtu=1400, cpat="", spat=""):
    nc, ns, piggy, closec = CFG_PARAMS[cfg]
    first = 600 if piggy else 1200
    cw = [first] + [1000] * (nc - 1)
    c = [["w", n] for n in cw]
    s = [["rn", sum(cw)]]
    if closec:
        c.append(["close"])
        s = [["rall"]]
        if ns:
            s = [["rn", sum(cw)]] + [["w", 1000]] * ns + [["rall"]]
    else:
        s += [["w", 1000]] * ns
        if ns:
            c.append(["rn", 1000 * ns])
    sess = [{"c": c, "s": s}]
    if not closec:
        sessions.keep_open(sess)
    return {"id": "%s/%d" % (cfg, k), "transport": "udp", "mtu": mtu, "cpat": cpat, "spat": spat,
            "faults": faults_of(table, lag=[0, 25, 3000][k % 3]), "sessions": sess, "seed": seed,
            "expect": "" if closec else "complete", "limit": 400}


def named_schedules(seed):
    """Fault schedules asked for by name (DESIGN 5/C02)."""
    def sc(name, faults, c=None, s=None, **kw):
        d = {"id": "named/" + name, "transport": "udp", "mtu": 1400, "faults": faults, "seed": seed,
             "sessions": sessions.keep_open([{"c": c or [["w", 1200], ["w", 3000], ["rn", 2500]],
                                              "s": s or [["rn", 4200], ["w", 2500]]}]),
             "expect": "complete", "limit": 600}
        d.update(kw)
        return d
    F = lambda ep, kind, seq, tx, fate, **kw: dict({"ep": ep, "kind": kind, "s": -1, "seq": seq, "tx": tx, "fate": fate}, **kw)
    out = [
        # a one-way upload that lasts longer than the 60 s idle timeout: the uploader receives nothing but acks and heartbeats
        sc("one-way-trickle-for-80-s", [], c=[["w", 1000], ["sleep", 5000]] * 16 + [["w", 7]], s=[["rn", 16007]], limit=900),
        sc("one-way-trickle-download-for-80-s", [], c=[["w", 1], ["rn", 16000]], s=[["rn", 1]] + [["w", 1000], ["sleep", 5000]] * 16, limit=900),
        sc("lose-open-response", [F("S", "openresp", 0, 1, "drop")]),
        sc("lose-open-response-twice", [F("S", "openresp", 0, 1, "drop"), F("S", "openresp", 0, 2, "drop")]),
        sc("lose-open-request-twice", [F("C", "open", 0, 1, "drop"), F("C", "open", 0, 2, "drop")]),
        sc("lose-every-first-transmission", [F("", "any", -1, 1, "drop")]),
        sc("duplicate-everything", [F("", "any", -1, 0, "dup")]),
        sc("duplicate-open-response", [F("S", "openresp", 0, 0, "dup"), F("S", "data", -1, 1, "delay", ms=30)]),
        sc("reverse-a-flight", [F("C", "data", 1, 1, "delay", ms=40), F("C", "data", 2, 1, "delay", ms=20)]),
        sc("lose-all-acks-once", [F("S", "ack", -1, 0, "drop", n=6), F("C", "ack", -1, 0, "drop", n=6)]),
        sc("hole-then-duplicate-of-delivered", [F("C", "data", 2, 1, "drop"), F("C", "data", 1, 1, "dup", ms=40)],
           c=[["w", 1200], ["w", 1200], ["w", 1200], ["w", 1200], ["rn", 100]], s=[["rn", 4800], ["w", 100]]),
    ]
    # the segment that reopens a closed window: big transfer to a reader that pauses (receive window closes)
    out.append(sc("window-closes-and-reopens", [F("S", "ack", -1, 0, "drop", n=3)],
                  c=[["w", 32768]] * 8 + [["rn", 10]],
                  s=[["sleep", 3000], ["rn", 32768 * 8], ["w", 10]], limit=900))
    # a reader that stops reading on one session must not stall its sibling on the same UDP underlay
    big = [["w", 32768]] * 224          # 7 MiB > 4096 segments of backlog
    pp_c, pp_s = [], []
    for k in range(20):
        pp_c += [["w", 100], ["rn", 100 * (k + 1)]]
        pp_s += [["rn", 100 * (k + 1)], ["w", 100]]
    out.append({"id": "named/paused-reader-does-not-stall-sibling", "transport": "udp", "mtu": 1400, "seed": seed,
                "multiplex": 3, "notx": 2, "expect": "complete", "limit": 3000, "faults": [],
                "sessions": sessions.keep_open([
                    {"c": big, "s": [["wait", "sibling"], ["rn", 32768 * 224]]},
                    {"c": [["sleep", 2000]] + pp_c + [["before", 60000], ["sig", "sibling"]], "s": pp_s}])})
    return out


def random_runs(ctx, n, seed):
    rnd = random.Random(seed)
    out = []
    pats = ["", sessions.pattern(pad_mid=0, pad_end=0), sessions.pattern(pad_mid=255, pad_end=255),
            sessions.pattern(le_mode="LOW_ENTROPY_MODE_32", le_rot="LOW_ENTROPY_MASK_ROTATE_RIGHT_3"),
            sessions.pattern(le_mode="LOW_ENTROPY_MODE_56", le_rot="LOW_ENTROPY_MASK_ROTATE_LEFT_7"),
            sessions.pattern(le_mode="LOW_ENTROPY_MODE_48"), sessions.pattern(le_mode="LOW_ENTROPY_MODE_40", pad_mid=17)]
    for k in range(n):
        loss = rnd.choice([10, 20, 30, 40])
        nsess = rnd.choice([1, 1, 2, 3])
        sess = []
        for _ in range(nsess):
            cw = [rnd.choice([1, 600, 1024, 1025, 1312, 1313, 5000, 20000]) for _ in range(rnd.randint(1, 4))]
            sw = [rnd.choice([1, 700, 1312, 4000, 15000]) for _ in range(rnd.randint(0, 3))]
            c = [["w", x] for x in cw] + ([["rn", sum(sw)]] if sw else [])
            s = [["rn", sum(cw)]] + [["w", x] for x in sw]
            sess.append({"c": c, "s": s})
        out.append({"id": "random/%d-loss%d-s%d" % (k, loss, nsess), "transport": "udp",
                    "mtu": rnd.choice([1280, 1400, 1500, 1337]), "cpat": rnd.choice(pats), "spat": rnd.choice(pats),
                    "loss": loss, "dup": rnd.choice([0, 5, 15]), "delay": rnd.choice([0, 10, 30]),
                    "sessions": sessions.keep_open(sess), "seed": seed * 1000 + k, "expect": "complete", "limit": 1800, "notx": 1})
    return out


def run(ctx):
    ctx.level = "model_checking"
    ctx.coverage["rule"] = ("TLC enumerates every drop/dup schedule (by datagram identity) under which the bounded "
                            "SessionPacket model completes; each is replayed on real client+server muxes in virtual time "
                            "and the recorded trace is validated by TLC. distinct_nontrivial = distinct fault tables "
                            "with at least one fault that were replayed + random-fault sessions")
    ctx.assumptions += ["virtual time (testing/synctest, go1.26.8 timer semantics)",
                        "timer abstraction in the design model: a retransmission fires only when nothing in flight can answer it",
                        "congestion/RTT arithmetic abstracted to a window of 1-2 segments in the model"]
    wd = vlib.scratch_dir("verif-c02-")
    try:
        cfgs = QUICK_CFGS + (THOROUGH_CFGS if ctx.thorough() else [])
        tables = model(ctx, cfgs)
        liveness(ctx)
        rnd = random.Random(ctx.seed)
        scen = []
        per_cfg = 40 if not ctx.thorough() else 100000
        for cfg, tabs in tables.items():
            pick = tabs if len(tabs) <= per_cfg else rnd.sample(tabs, per_cfg)
            for k, t in enumerate(pick):
                mtu = [1400, 1280, 1500][k % 3]
                scen.append(scenario_from(cfg, k, t, ctx.seed, mtu=mtu))
            ctx.coverage.setdefault("fate_tables", {})[cfg] = {"distinct": len(tabs), "replayed": len(pick)}
        if scen:
            ctx.sample({"kind": "TLC fault schedule replayed on the real muxes", "scenario": scen[len(scen) // 2]})
        scen += named_schedules(ctx.seed)
        scen += random_runs(ctx, 12 if not ctx.thorough() else 200, ctx.seed)
        ctx.coverage["distinct_nontrivial"] += len(scen)
        trace = sessions.check_traces(ctx, scen, wd, "c02", INVS, timeout=2400)
        sessions.sample_trace(ctx, trace, "named/lose-open-response")
    finally:
        shutil.rmtree(wd, ignore_errors=True)


def replay(ctx, path):
    rp = json.load(open(path))
    wd = vlib.scratch_dir("verif-c02r-")
    try:
        sessions.check_traces(ctx, [rp["scenario"]], wd, "replay", INVS)
    finally:
        shutil.rmtree(wd, ignore_errors=True)
