CONSTANTS
  NC = 2
  NS = 1
  Win = 2
  MaxTx = 3
  Drops = 1
  Dups = 0
  Piggy = TRUE
  CloseC = TRUE
  InOrderClose = TRUE
INIT Init
NEXT Next
INVARIANTS PrefixOK AckSound AckOnWire NoEarlyDiscard CloseNoTrunc NoStall NotAbandoned DumpFates
CHECK_DEADLOCK FALSE
