CONSTANTS
  MaxSteps = 14
  Persist = TRUE
SPECIFICATION Spec
INVARIANTS DeadlineBounds DumpHist
CHECK_DEADLOCK FALSE
