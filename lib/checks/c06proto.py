def run(ctx, sd):
    ctx.notes.append("protocol-level replay binding not built yet")
