CONSTANTS
  UnitBits = 8
  ChunkUnits = 8
INIT Init
NEXT Next
CHECK_DEADLOCK FALSE
