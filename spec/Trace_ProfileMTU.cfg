SPECIFICATION Spec
INVARIANTS ProfileFitsMTU
POSTCONDITION TraceAccepted
CHECK_DEADLOCK FALSE
