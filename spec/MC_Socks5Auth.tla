---------------------------- MODULE MC_Socks5Auth ----------------------------
EXTENDS Socks5Auth
GateInv == Gate
RulesInv == NoCredsRule /\ OnlyConfiguredPairs
ASSUME PrintT(<<"TABLE", ToJson(Table)>>)
=============================================================================
