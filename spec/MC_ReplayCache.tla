-------------------------- MODULE MC_ReplayCache --------------------------
(* Bounded instance of ReplayCache with a path variable `hist` that is     *)
(* hidden from the state fingerprint by VIEW: TLC keeps one path per       *)
(* distinct state (a spanning tree of the state graph), and the ACTION     *)
(* CONSTRAINT prints the path of every generated transition, so each       *)
(* transition of the model becomes one replay on the real cache.           *)
EXTENDS ReplayCache, Json, IOUtils

VARIABLE hist
mcvars == <<vars, hist>>

MaxHist == 60

MCInit == Init /\ hist = <<>>
MCNext == /\ Len(hist) < MaxHist
          /\ Next
          /\ hist' = Append(hist, <<last'.dt, last'.item, last'.tag, last'.res, last'.szc, last'.szp>>)
MCSpec == MCInit /\ [][MCNext]_mcvars

View == <<ttl, cur, prev, rec, seen>>

DumpMode == IF "VERIF_DUMP" \in DOMAIN IOEnv THEN IOEnv.VERIF_DUMP ELSE "none"

\* one line per generated transition (mode "trans") or per state (mode "state")
DumpTrans == DumpMode # "trans" \/ PrintT(<<"BEH", ToJson(hist')>>)
DumpState == DumpMode # "state" \/ hist = <<>> \/ PrintT(<<"BEH", ToJson(hist)>>)
=============================================================================
