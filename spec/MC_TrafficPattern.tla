------------------------- MODULE MC_TrafficPattern -------------------------
EXTENDS TrafficPattern
ASSUME GenerationSound(OtherOrig)
NonceSound == GenerationSound(NonceOrig)
\* originals exported for the binding: the whole nonce group and the whole group of the other fields
ASSUME PrintT(<<"ORIG", ToJson([nonce |-> {p \in NonceOrig : Validate(p)}, other |-> {p \in OtherOrig : Validate(p)}])>>)
=============================================================================
