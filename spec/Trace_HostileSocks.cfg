SPECIFICATION Spec
INVARIANTS NoCrash VictimKeepsBeingServed
POSTCONDITION TraceAccepted
CHECK_DEADLOCK FALSE
