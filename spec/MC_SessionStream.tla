------------------------- MODULE MC_SessionStream -------------------------
(* SessionStream with an application-level history (hidden by VIEW): the    *)
(* order in which the applications wrote and closed.  Every distinct         *)
(* finished state prints its history; the harness replays that programme     *)
(* (with concrete sizes, traffic patterns and stream chunkings) on real      *)
(* muxes.                                                                    *)
EXTENDS SessionStream, Json, IOUtils

VARIABLE hist
mcvars == <<vars, hist>>

MCInit == Init /\ hist = <<>>
MCNext == \/ \E e \in Ends, s \in Sess :
              \/ AppWrite(e, s) /\ hist' = Append(hist, <<"w", e, s>>)
              \/ AppClose(e, s) /\ hist' = Append(hist, <<"close", e, s>>)
              \/ (WriteBegin(e, s) \/ Input(e, s) \/ ReaderCheck(e, s) \/ ReaderWait(e, s)) /\ UNCHANGED hist
          \/ \E e \in Ends : (WriteNext(e) \/ RecvPiece(e)) /\ UNCHANGED hist

View == vars
DumpMode == IF "VERIF_DUMP" \in DOMAIN IOEnv THEN IOEnv.VERIF_DUMP ELSE "none"
AllRead == \A s \in Sess : Len(got["S"][s]) = NC /\ (CloseC \/ Len(got["C"][s]) = NS)
DumpHist == (DumpMode = "hist" /\ AllRead /\ \A e \in Ends : wire[e] = <<>>) => PrintT(<<"BEH", ToJson(hist)>>)
=============================================================================
