CONSTANTS
  TraceTransport = "tcp"
SPECIFICATION Spec
INVARIANTS SilentL NothingForApplicationL OnlyGenuineAcceptedL GenuineUnaffectedL
POSTCONDITION TraceAccepted
CHECK_DEADLOCK FALSE
