"""Shared binding for the session-level properties (C01-C04, C09, C13, C14, C16):
scenario construction, execution on the real muxes (harness/sessrun) and TLC
validation of the recorded traces against spec/Trace_Session.tla."""
import json
import os
import re
import shutil

import vlib
from vlib import Inconclusive

ALL_INVARIANTS = ["ReadExact", "CloseNoTrunc", "NoSpuriousEOF", "Decodable", "AckSound", "RetxSame", "CloseSeqUnique",
                  "SeqDense", "TxContiguous", "FitsMTU", "FitsFields", "PadOK", "Completes", "Attributed", "OnTime", "NonceOK", "LEOK"]


def run_scenarios(scenarios, workdir, name, timeout=1500, race=False):
    """Execute scenarios on the real code; returns the path of the ndjson trace."""
    for sc in scenarios:
        # TCP fragmentation sleeps while holding the underlay's send mutex: such runs need the wall clock
        if sc.get("transport") == "tcp" and any('"maxSleepMs": ' in (sc.get(k) or "") and '"maxSleepMs": 0' not in (sc.get(k) or "")
                                                and '"enable": true' in (sc.get(k) or "") for k in ("cpat", "spat")):
            sc["realtime"] = True
            sc["limit"] = min(sc.get("limit", 60), 90)
    out = os.path.join(workdir, name + ".trace.ndjson")
    open(out, "w").close()
    todo = list(scenarios)
    hung = []
    crashed = []
    rc, log = 0, ""
    part = 0
    while todo:
        part += 1
        inp = os.path.join(workdir, "%s.in%d.ndjson" % (name, part))
        pout = os.path.join(workdir, "%s.part%d.ndjson" % (name, part))
        with open(inp, "w") as f:
            for sc in todo:
                f.write(json.dumps(sc, separators=(",", ":")) + "\n")
        rc, log, wall = vlib.go_test("./sessrun/", "TestScenarios$", env={"VERIF_IN": inp, "VERIF_OUT": pout},
                                     timeout=timeout, race=race)
        done = 0
        hung_id = None
        with open(out, "a") as fo:
            if os.path.exists(pout):
                for sid, start, lines in split_traces(pout):
                    if lines and '"ev":"Hung"' in lines[-1]:
                        hung_id = json.loads(lines[-1])["err"]
                        lines = lines[:-1]
                    if sid is not None:
                        fo.writelines(lines)
                        done += 1
        m = re.search(r"^HUNG (.*)$", log, re.M)
        if rc != 0 and m:
            # virtual time could not advance (mutex wait behind back-pressure): abandon that scenario, go on
            hid = m.group(1).strip()
            hung.append(hid)
            idx = next((i for i, sc in enumerate(todo) if sc["id"] == hid), None)
            if idx is None:
                break
            todo = todo[idx + 1:]
            rc = 0
            continue
        if rc != 0:
            # the driver died (panic / bubble deadlock) while running the scenario after the last completed one:
            # keep the log, retry that scenario once; a second death on the same scenario is reported by the caller
            culprit = todo[done]["id"] if done < len(todo) else None
            os.makedirs(os.path.join(vlib.REPLAYS, "driver_logs"), exist_ok=True)
            with open(os.path.join(vlib.REPLAYS, "driver_logs", "%s_part%d.log" % (name, part)), "w") as f:
                f.write("culprit: %s\n" % culprit)
                f.write(log[-200000:])
            if culprit is not None and culprit not in crashed:
                crashed.append(culprit)
                todo = todo[done:]
                rc = 0
                continue
            break
        todo = []
    begun = 0
    with open(out) as f:
        for line in f:
            if '"ev":"Begin"' in line:
                begun += 1
    return out, rc, log, begun + len(hung), hung


def split_traces(path):
    """Yield (scenario_id, first_line_no, [lines]) for each scenario in a trace file."""
    cur, cur_id, start = [], None, 0
    with open(path) as f:
        for n, line in enumerate(f, 1):
            if '"ev":"Begin"' in line:
                if cur:
                    yield cur_id, start, cur
                cur, start = [], n
                cur_id = json.loads(line)["err"]
            cur.append(line)
    if cur:
        yield cur_id, start, cur


def validate(path, invariants, what="trace"):
    """TLC-validate a recorded trace file. Returns (violated_invariant, line_no) or (None, 0)."""
    cfg_text = ("SPECIFICATION Spec\nINVARIANTS %s\nPOSTCONDITION TraceAccepted\nCHECK_DEADLOCK FALSE\n"
                % " ".join(invariants))
    res = vlib.tlc("Trace_Session", "gen_Trace_Session", workers=1, timeout=3000, env={"VERIF_TRACE": path},
                   keep_out=True, heap="12g", cfg_text=cfg_text)
    if res.violated in invariants:
        m = re.findall(r"/\\ l = (\d+)", res.trace[-1] if res.trace else "")
        line = int(m[-1]) - 1 if m else 0
        return res.violated, line, res
    if res.violated or res.error or not res.finished:
        raise Inconclusive("trace validation of %s failed: %s %s\n%s" % (what, res.violated, res.error, res.out[-2500:]))
    return None, 0, res


def find_scenario(path, line_no):
    """Return (scenario id, list of event dicts) of the scenario containing trace line line_no."""
    for sid, start, lines in split_traces(path):
        if start <= line_no < start + len(lines):
            return sid, start, [json.loads(x) for x in lines]
    return None, 0, []


def compact(ev):
    """A short rendering of an event for evidence samples."""
    keep = {k: v for k, v in ev.items() if v not in (0, "", False, -1) or k in ("ev",)}
    keep.pop("i", None)
    return keep


def check_traces(ctx, scenarios, workdir, name, invariants, pid_of_inv=None, race=False, timeout=1500,
                 signature_of=None):
    """Run + validate; report violations of `invariants` against ctx. Returns the list of scenario ids run."""
    byid = {sc["id"]: sc for sc in scenarios}
    trace, rc, log, begun, hung = run_scenarios(scenarios, workdir, name, timeout=timeout, race=race)
    if hung:
        ctx.notes.append("scenarios abandoned because virtual time could not advance (not judged): %s" % hung)
        if len(hung) > max(2, len(scenarios) // 20):
            raise Inconclusive("too many scenarios could not run in virtual time: %s" % hung[:10])
    if rc != 0 or begun != len(scenarios):
        # a leaked goroutine (bubble deadlock) or a crash in the real code while running scenario #begun+1
        culprit = scenarios[begun]["id"] if begun < len(scenarios) else "?"
        raise Inconclusive("driver stopped after %d/%d scenarios (next: %s), rc=%d\n%s"
                           % (begun, len(scenarios), culprit, rc, log[-3000:]))
    if hung:
        # what virtual time could not run is run again on the wall clock, so that it is judged after all
        again = [dict(byid[h], realtime=True) for h in hung[:8] if h in byid]
        try:
            trace2, rc2, _log2, _begun2, hung2 = run_scenarios(again, workdir, name + "_rt", timeout=900, race=race)
            if rc2 == 0 and os.path.exists(trace2):
                with open(trace, "a") as fo, open(trace2) as fi:
                    fo.write(fi.read())
                ctx.notes[-1] = ("scenarios virtual time could not run were run again in real time: %s; still not judged: %s"
                                 % ([h for h in hung[:8] if h not in hung2], hung2 + hung[8:]))
        except Exception as e:       # the re-run is a bonus: never turn it into a verdict
            ctx.notes.append("real-time re-run of abandoned scenarios failed: %s" % str(e)[:200])
    nev = sum(1 for _ in open(trace))
    remaining = trace
    guard = 0
    reported = 0
    while True:
        guard += 1
        inv, line, res = validate(remaining, invariants, name)
        if inv is None:
            ctx.coverage["states"] += res.distinct
            ctx.coverage["transitions"] += res.generated
            break
        sid, start, events = find_scenario(remaining, line)
        sc = byid.get(sid, {})
        bad = events[line - start] if 0 <= line - start < len(events) else {}
        rp = ctx.save_replay("%s_%s.json" % (name, re.sub(r"[^A-Za-z0-9_.-]", "_", str(sid))[:80]),
                             {"scenario": sc, "violated": inv, "at_event": bad,
                              "trace": [compact(e) for e in events[:400]]})
        sig = signature_of(inv, sc, bad) if signature_of else "%s:%s" % (ctx.pid, inv)
        if ctx.report("%s violated by the real code in scenario %s at event %s" % (inv, sid, compact(bad)), rp, sig):
            reported += 1
        # continue with the scenarios after the failing one
        rest = os.path.join(workdir, "%s.rest%d.ndjson" % (name, guard))
        with open(rest, "w") as f:
            skipping = True
            for sid2, start2, lines in split_traces(remaining):
                if skipping:
                    if start2 > line:
                        skipping = False
                    else:
                        continue
                f.writelines(lines)
        if os.path.getsize(rest) == 0 or guard > 12 or reported >= 3:
            break
        remaining = rest
    ctx.coverage["traces_validated_against_impl"] += len(scenarios)
    ctx.coverage["evaluations"] += nev
    return trace


def sample_trace(ctx, trace, want_id=None, n=14):
    for sid, start, lines in split_traces(trace):
        if want_id is None or sid == want_id:
            evs = [compact(json.loads(x)) for x in lines[:n]]
            ctx.sample({"kind": "events recorded from the real muxes (first %d of %d)" % (len(evs), len(lines)),
                        "scenario": sid, "events": evs})
            return


# ---- scenario builders -----------------------------------------------------

def pattern(pad_mid=None, pad_end=None, le_mode=None, le_rot=None, nonce=None, tcpfrag=None, seed=None, unlock=None):
    p = {}
    if pad_mid is not None or pad_end is not None:
        p["padding"] = {}
        if pad_mid is not None:
            p["padding"]["maxMiddlePaddingLen"] = pad_mid
        if pad_end is not None:
            p["padding"]["maxEndPaddingLen"] = pad_end
    if le_mode is not None:
        p["lowEntropy"] = {"mode": le_mode}
        if le_rot is not None:
            p["lowEntropy"]["maskRotation"] = le_rot
    if nonce is not None:
        p["nonce"] = nonce
    if tcpfrag is not None:
        p["tcpFragment"] = tcpfrag
    if seed is not None:
        p["seed"] = seed
    if unlock is not None:
        p["unlockAll"] = unlock
    return json.dumps(p) if p else ""


LE_MODES = ["LOW_ENTROPY_MODE_OFF", "LOW_ENTROPY_MODE_32", "LOW_ENTROPY_MODE_40", "LOW_ENTROPY_MODE_48",
            "LOW_ENTROPY_MODE_56"]


def rotation_name(k):
    if k == 0:
        return "LOW_ENTROPY_MASK_NO_ROTATION"
    if k <= 15:
        return "LOW_ENTROPY_MASK_ROTATE_RIGHT_%d" % k
    return "LOW_ENTROPY_MASK_ROTATE_LEFT_%d" % (k - 15)


def keep_open(sess):
    """Make both programmes of each session stay open until the peer has finished its own programme
    (C02 speaks about connections that both ends keep open)."""
    for i, ss in enumerate(sess):
        ss["c"] = list(ss["c"]) + [["sig", "cdone%d" % i], ["wait", "sdone%d" % i]]
        ss["s"] = list(ss["s"]) + [["sig", "sdone%d" % i], ["wait", "cdone%d" % i]]
    return sess
