"""C06 - replayed handshakes are rejected without a reply; the cache is exact.

Cache half:  spec/ReplayCache.tla  (design)  MC_ReplayCache (exhaustive, path dump)
             Trace_ReplayCache (validation of histories recorded from pkg/replay)
Protocol half: see c06proto (real server, recorded sessions re-presented).
"""
import json
import os
import shutil

import vlib
from vlib import Inconclusive

CONFIGS = {  # cfg -> (cap, interval, dump mode)
    "MC_ReplayCache_q1": (1, 2, "trans"),
    "MC_ReplayCache_q2": (2, 2, "state"),
}
THOROUGH = {
    "MC_ReplayCache_q2": (2, 2, "trans"),
    "MC_ReplayCache_3i": (2, 2, "state"),
}


def model_and_behaviours(ctx, sd):
    behs = os.path.join(sd, "behaviours.ndjson")
    n = 0
    cfgs = dict(CONFIGS)
    if ctx.thorough():
        cfgs.update(THOROUGH)
    with open(behs, "w") as f:
        for cfg, (cap, interval, mode) in cfgs.items():
            res = vlib.tlc("MC_ReplayCache", cfg, timeout=900, env={"VERIF_DUMP": mode}, heap="16g")
            if res.violated:
                raise Inconclusive("design spec %s violates %s on the MODEL (spec/code modelling error to fix):\n%s"
                                   % (cfg, res.violated, "\n".join(res.trace or [])[-2000:]))
            ctx.add_tlc(res, "ReplayCache exhaustive %s dump=%s" % (cfg, mode))
            for _tag, hist in res.prints:
                f.write(json.dumps({"cap": cap, "interval": interval, "steps": hist}, separators=(",", ":")) + "\n")
                n += 1
                if n % 5000 == 1:
                    ctx.sample({"kind": "model behaviour replayed on replay.NewCache", "cap": cap,
                                "interval": interval, "steps": hist})
    # spec sensitivity: the pre-fix algorithm must violate NoMiss in the model
    res = vlib.tlc("MC_ReplayCache", "MC_ReplayCache_prefix", timeout=300)
    ctx.coverage["model_detects_prefix_defect"] = (res.violated == "NoMiss")
    if res.violated != "NoMiss":
        raise Inconclusive("sanity: pre-fix model should violate NoMiss, got %s %s" % (res.violated, res.error))
    return behs, n


def validate_trace(ctx, path, what):
    """TLC-validate a history recorded from the real cache.  Returns (verdict, drift_line):
    verdict is the violated property invariant or None; drift_line is the first line where
    the real cache's answer differs from the model's (0 = conforms)."""
    res = vlib.tlc("Trace_ReplayCache", workers=1, timeout=600, env={"VERIF_TRACE": path}, keep_out=True,
                   tags=("DRIFT",))
    drift = int(res.prints[0][1]) if res.prints else 0
    if res.violated in ("RealNoMiss", "RealNoFalsePositive"):
        return res.violated, drift
    if res.violated or res.error or not res.finished:
        raise Inconclusive("trace validation %s: %s %s\n%s" % (what, res.violated, res.error, res.out[-2000:]))
    ctx.coverage["states"] += res.distinct
    ctx.coverage["transitions"] += res.generated
    return None, drift


def run(ctx):
    ctx.level = "model_checking"
    ctx.coverage["rule"] = ("every transition (q1) / every distinct state (q2) of the exhaustive ReplayCache model is "
                            "replayed on the real cache in virtual time and compared step by step; random histories "
                            "recorded from the real cache at larger constants are validated by TLC against the spec. "
                            "distinct_nontrivial counts behaviours that contain at least one rotation or one duplicate verdict")
    ctx.assumptions += ["testing/synctest virtual clock (go1.26.8) stands in for time.Now in pkg/replay",
                        "FNV-64a signatures of the short test items do not collide"]
    sd = vlib.scratch_dir("verif-c06-")
    try:
        behs, n = model_and_behaviours(ctx, sd)
        out = os.path.join(sd, "replay_out.ndjson")
        rc, log, _ = vlib.go_test("./c06/", "TestReplayBehaviours$", env={"VERIF_IN": behs, "VERIF_OUT": out,
                                                                          "VERIF_SEED": ctx.seed}, timeout=900)
        if rc != 0 or not os.path.exists(out):
            raise Inconclusive("driver TestReplayBehaviours failed:\n" + log[-3000:])
        rows = vlib.read_ndjson(out)
        summary = [r for r in rows if r.get("summary")]
        if not summary or summary[0]["behaviours"] != n:
            raise Inconclusive("driver replayed %s of %d behaviours" % (summary, n))
        ctx.coverage["evaluations"] += summary[0]["steps"]
        ctx.coverage["behaviours_replayed"] = n
        nontrivial = 0
        with open(behs) as f:
            for line in f:
                b = json.loads(line)
                if any(s[3] or s[5] > 0 for s in b["steps"]):
                    nontrivial += 1
        ctx.coverage["distinct_nontrivial"] += nontrivial
        mism = [r for r in rows if not r.get("summary")]
        mism.sort(key=lambda m: -len(m['real']))
        for k, m in enumerate(mism[:25]):
            tr = ctx.replay_path("mismatch_%d.ndjson" % k)
            ev = [{"ev": "new", "cap": m["cap"], "interval": m["interval"], "dt": 0, "item": "", "tag": "", "res": False, "szc": 0, "szp": 0}]
            for s in m["real"]:
                ev.append({"ev": "call", "cap": m["cap"], "interval": m["interval"], "dt": s[0], "item": s[1],
                           "tag": s[2], "res": s[3], "szc": s[4], "szp": s[5]})
            vlib.write_ndjson(tr, ev)
            verdict, _ = validate_trace(ctx, tr, "mismatch %d" % k)
            if verdict:
                ctx.report("real cache answered %s at step %d of a model behaviour (%s)" % (m["real"][m["at"]], m["at"], verdict),
                           tr, "C06:cache:%s" % verdict)
            else:
                ctx.drift.append("cache deviates from ReplayCache.tla at step %d of %s (property still holds)" % (m["at"], tr))
        ctx.coverage["replay_mismatches"] = len(mism)

        # code -> spec: random histories at larger constants
        groups = [(3, 4), (4, 3), (1, 2)] if not ctx.thorough() else [(3, 4), (4, 3), (1, 2), (5, 6), (2, 5), (6, 2)]
        ntr = 40 if not ctx.thorough() else 300
        for gi, (cap, interval) in enumerate(groups):
            tr = os.path.join(sd, "rand_%d.ndjson" % gi)
            rc, log, _ = vlib.go_test("./c06/", "TestRecordRandom$", env={
                "VERIF_OUT": tr, "VERIF_SEED": ctx.seed * 31 + gi, "VERIF_N": ntr, "VERIF_LEN": 60,
                "VERIF_CAP": cap, "VERIF_INTERVAL": interval}, timeout=600)
            if rc != 0:
                raise Inconclusive("driver TestRecordRandom failed:\n" + log[-3000:])
            verdict, drift = validate_trace(ctx, tr, "random cap=%d interval=%d" % (cap, interval))
            if verdict:
                keep = ctx.replay_path("random_cap%d_int%d.ndjson" % (cap, interval))
                os.replace(tr, keep)
                ctx.report("recorded history of the real cache violates %s (cap=%d interval=%d)" % (verdict, cap, interval),
                           keep, "C06:cache:%s" % verdict)
            else:
                if drift:
                    keep = ctx.replay_path("drift_cap%d_int%d.ndjson" % (cap, interval))
                    shutil.copy(tr, keep)
                    ctx.drift.append("recorded history deviates from ReplayCache.tla at line %d of %s (property holds)" % (drift, keep))
                ctx.coverage["traces_validated_against_impl"] += ntr
                ctx.coverage["evaluations"] += ntr * 60
                if gi == 0:
                    ctx.sample({"kind": "history recorded from the real cache, validated by TLC",
                                "events": vlib.read_ndjson(tr)[:8]})
        import checks.c06proto as proto
        proto.run(ctx, sd)
    finally:
        shutil.rmtree(sd, ignore_errors=True)


def replay(ctx, path):
    verdict, drift = validate_trace(ctx, path, "replay")
    print("replay verdict:", verdict or "accepted", "drift at line", drift)
    if verdict:
        ctx.report("replayed trace violates " + verdict, path, "C06:cache:%s" % verdict)
