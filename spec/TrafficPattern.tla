--------------------------- MODULE TrafficPattern ---------------------------
(***************************************************************************)
(* Traffic pattern configuration (apis/trafficpattern/config.go): every    *)
(* field is Unset or a value; Validate as coded; Effective fills ONLY the  *)
(* unset fields from seed-derived draws ranging over the intervals the     *)
(* code documents (wider with unlockAll).  TLC checks, for every original  *)
(* and every draw: explicit fields are kept, the effective pattern is      *)
(* valid.  The set of originals is exported; harness/c16 feeds each to the *)
(* real NewConfig and TLC validates what came back (Trace_TrafficPattern). *)
(***************************************************************************)
EXTENDS Integers, FiniteSets, Sequences, TLC, Json

U == -1     \* unset
B(x) == IF x THEN 1 ELSE 0

\* boundary domains of explicit values
DTcpEnable == {U, 0, 1}
DSleep == {U, 0, 100}
DType == {U, 0, 1, 2, 3}          \* random, printable, printable subset, fixed
DApply == {U, 0, 1}
DMin == {U, 0, 6, 12}
DMax == {U, 0, 3, 12}
DPad == {U, 0, 255}
DMode == {U, 0, 1, 4}
DRot == {U, 0, 15, 240}
DUnlock == {0, 1}

Orig == [tcpEnable : DTcpEnable, sleep : DSleep, type : DType, apply : DApply, min : DMin, max : DMax,
         mid : DPad, end : DPad, mode : DMode, rot : DRot, unlock : DUnlock]

ValidRot(r) == r = 0 \/ r \in 1..15 \/ (r \in 16..240 /\ r % 16 = 0)

Validate(p) ==
  /\ (p.sleep # U => p.sleep \in 0..100)
  /\ (p.min # U => p.min \in 0..12)
  /\ (p.max # U => p.max \in 0..12)
  /\ (p.min # U /\ p.max # U => p.min <= p.max)
  /\ (p.mid # U => p.mid \in 0..255)
  /\ (p.end # U => p.end \in 0..255)
  /\ (p.mode # U => p.mode \in 0..4)
  /\ (p.rot # U => ValidRot(p.rot))

\* intervals of the implicit draws
RSleep(u) == IF u = 1 THEN 1..100 ELSE {0}
RTcp(u) == IF u = 1 THEN {0, 1} ELSE {0}
RType(u) == IF u = 1 THEN 0..2 ELSE 1..2
RMin(u) == IF u = 1 THEN 0..12 ELSE 6..12
RMid == 0..127
REnd(u) == IF u = 1 THEN 0..255 ELSE {255}
RMode(u) == IF u = 1 THEN 0..4 ELSE {0}
RRot == {0} \cup (1..15) \cup {16 * k : k \in 1..15}

Ends(S) == {CHOOSE x \in S : \A y \in S : x <= y, CHOOSE x \in S : \A y \in S : x >= y}

\* MinClamp = TRUE models the repaired generator (an implicit minLen never exceeds an explicit maxLen)
CONSTANT MinClamp

EffMin(p, draw) == IF p.min # U THEN p.min
                   ELSE IF MinClamp /\ p.max # U /\ draw > p.max THEN p.max ELSE draw
\* the effective patterns reachable from p (draws at the ends of each interval)
Effectives(p) ==
  { [tcpEnable |-> IF p.tcpEnable # U THEN p.tcpEnable ELSE a,
     sleep |-> IF p.sleep # U THEN p.sleep ELSE b,
     type |-> IF p.type # U THEN p.type ELSE c,
     apply |-> IF p.apply # U THEN p.apply ELSE d,
     min |-> EffMin(p, e),
     max |-> IF p.max # U THEN p.max ELSE (IF f = 0 THEN EffMin(p, e) ELSE 12),
     mid |-> IF p.mid # U THEN p.mid ELSE g,
     end |-> IF p.end # U THEN p.end ELSE h,
     mode |-> IF p.mode # U THEN p.mode ELSE i,
     rot |-> IF p.rot # U THEN p.rot ELSE j,
     unlock |-> p.unlock] :
    a \in Ends(RTcp(p.unlock)), b \in Ends(RSleep(p.unlock)), c \in Ends(RType(p.unlock)), d \in {0, 1},
    e \in Ends(RMin(p.unlock)), f \in {0, 1}, g \in Ends(RMid), h \in Ends(REnd(p.unlock)),
    i \in Ends(RMode(p.unlock)), j \in {0, 15, 240} }

Fields == {"tcpEnable", "sleep", "type", "apply", "min", "max", "mid", "end", "mode", "rot"}
ExplicitKept(p, q) == \A f \in Fields : p[f] # U => q[f] = p[f]
Complete(q) == \A f \in Fields : q[f] # U

\* the nonce group is the only one with a cross-field constraint: check it exhaustively, the rest per field
NonceOrig == [tcpEnable : {U}, sleep : {U}, type : DType, apply : DApply, min : DMin, max : DMax,
              mid : {U}, end : {U}, mode : {U}, rot : {U}, unlock : DUnlock]
OtherOrig == [tcpEnable : DTcpEnable, sleep : DSleep, type : {U}, apply : {U}, min : {U}, max : {U},
              mid : DPad, end : DPad, mode : DMode, rot : DRot, unlock : DUnlock]

GenerationSound(S) == \A p \in S : Validate(p) =>
                         \A q \in Effectives(p) : ExplicitKept(p, q) /\ Complete(q) /\ Validate(q)

VARIABLE x
Init == x = 0
Next == x' = x /\ FALSE
=============================================================================
