"""C14 - no datagram exceeds the configured MTU; no payload exceeds its length field.

design spec   spec/WireSize.tla (on top of Wire.tla): fragment size, encoded length, padding budgets and the
              datagram length of every segment kind; TLC evaluates Fits over MTU 1280..1500 x 5 modes x
              configured maxima x boundary sizes (ASSUMEs) and exports a boundary table
spec -> code  every table row is compared with the real maxPaddingSizeWithTrafficPattern / maxFragmentSize /
              lowEntropyEncodedPayloadLen (accessors, tag verif)
code -> spec  full UDP sessions over MTU x mode x maxima x user names (padding strategies) with write sizes at the
              budget boundaries, piggybacked first writes 0..1024 and forced retransmissions; TLC checks FitsMTU and
              FitsFields at every emitted datagram
"""
import json
import os
import random
import shutil

import sessions
import vlib
from vlib import Inconclusive

INVS = ["FitsMTU", "FitsFields", "Decodable"]


def named_schedules(seed, thorough=False):
    rnd = random.Random(seed)
    out = []
    F = lambda ep, kind, seq, tx, fate, **kw: dict({"ep": ep, "kind": kind, "s": -1, "seq": seq, "tx": tx, "fate": fate}, **kw)
    users = ["verifuser", "alice", "bob", "carol", "dave", "erin", "frank", "u7", "u8", "u9"]
    mtus = [1280, 1300, 1366, 1400, 1500] if not thorough else [1280, 1290, 1300, 1320, 1350, 1366, 1367, 1400, 1450, 1500]
    k = 0
    for mtu in mtus:
        room = mtu - 88
        for ui, user in enumerate(users if thorough else users[:6]):
            # piggybacked first writes near the 1024 limit, several sessions (each opens with one datagram);
            # the first transmission of the open request is dropped so that it is also retransmitted
            sess = []
            for j in range(6):
                first = [1024, 1023, 1017, 1000, 937, 936][j]
                sess.append({"c": [["w", first], ["rn", 5]], "s": [["rn", first], ["w", 5]]})
            out.append({"id": "piggy/mtu%d-%s" % (mtu, user), "transport": "udp", "mtu": mtu, "user": user,
                        "faults": [F("C", "open", 0, 1, "drop", n=3)], "sessions": sessions.keep_open(sess),
                        "seed": seed + k, "limit": 600, "expect": "complete"})
            k += 1
        # data fragments that leave 255..510 bytes of room, both paddings at their default maximum
        for r in (255, 258, 262, 300, 400, 509):
            n = room - r
            out.append({"id": "room/mtu%d-room%d" % (mtu, r), "transport": "udp", "mtu": mtu,
                        "user": users[(k) % len(users)], "loss": 10,
                        "sessions": sessions.keep_open([{"c": [["w", 1200]] + [["wn", 60, n]] + [["rn", 60 * n]],
                                                         "s": [["rn", 1200 + 60 * n], ["wn", 60, n]]}]),
                        "seed": seed + k, "limit": 900, "expect": "complete"})
            k += 1
    # one Write of exactly k full fragments (and one byte either side): the split must not round a fragment up past the MTU
    for mtu in mtus:
        room = mtu - 88
        sizes = [k_ * room + d for k_ in (2, 3, 5, 16) for d in (-1, 0, 1)]
        out.append({"id": "split/mtu%d-whole-fragments" % mtu, "transport": "udp", "mtu": mtu, "user": users[k % len(users)],
                    "cpat": sessions.pattern(pad_mid=0, pad_end=0), "spat": sessions.pattern(pad_mid=0, pad_end=0),
                    "sessions": sessions.keep_open([{"c": [["w", 10]] + [["w", x] for x in sizes] + [["rn", sum(sizes)]],
                                                     "s": [["rn", 10 + sum(sizes)]] + [["w", x] for x in sizes]}]),
                    "seed": seed + k, "limit": 900, "expect": "complete"})
        k += 1
    # low entropy modes and explicit maxima, sizes around the fragment boundary
    confs = [(None, None), (0, 0), (1, 255), (255, 1), (128, 128), (255, 255)]
    for mi, mode in enumerate(sessions.LE_MODES):
        for ci, (pm, pe) in enumerate(confs if thorough else confs[:4]):
            mtu = mtus[(mi + ci) % len(mtus)]
            pat = sessions.pattern(pad_mid=pm, pad_end=pe, le_mode=mode if mi else None,
                                   le_rot=sessions.rotation_name((mi * 7 + ci) % 31) if mi else None)
            sizes = [1, 7, 1311, 1312, 1313, 5000, mtu - 88, mtu - 87, 2 * (mtu - 88) + 1]
            out.append({"id": "mode/%s-mtu%d-conf%d" % (mode, mtu, ci), "transport": "udp", "mtu": mtu,
                        "cpat": pat, "spat": pat, "loss": 15, "dup": 5,
                        "sessions": sessions.keep_open([{"c": [["w", x] for x in sizes] + [["rn", sum(sizes)]],
                                                         "s": [["rn", sum(sizes)]] + [["w", x] for x in sizes]}]),
                        "seed": seed + k, "limit": 900, "expect": "complete"})
            k += 1
    return out


def run(ctx):
    ctx.level = "model_checking"
    ctx.coverage["rule"] = ("TLC evaluates the size model over MTU 1280..1500 x modes x maxima x boundary sizes and exports a "
                            "boundary table; every row is compared with the real functions; UDP sessions at the budget "
                            "boundaries are run and every datagram measured. distinct_nontrivial = table rows where a "
                            "budget or fragment limit actually binds + wire scenarios")
    ctx.assumptions += ["virtual time (testing/synctest)", "padding draws are random: wire scenarios sample them, the table comparison does not depend on them"]
    wd = vlib.scratch_dir("verif-c14-")
    try:
        res = vlib.tlc("WireSize", timeout=900, tags=("SIZE",))
        if res.error or res.violated or not res.prints:
            raise Inconclusive("WireSize.tla: %s %s\n%s" % (res.violated, res.error, res.out[-2000:]))
        table = res.prints[0][1]
        ctx.coverage["states"] += 1
        ctx.coverage["transitions"] += len(table["pad"]) * 2 + len(table["frag"]) * 2 + len(table["enc"])
        ctx.coverage.setdefault("tlc_runs", []).append({"what": "WireSize ASSUMEs (FitsData, FitsAck, FitsSession, FragLaw, StreamLaw) + table export",
                                                       "rows": {k: len(v) for k, v in table.items()}, "wall_s": round(res.wall, 1)})
        tin, tout = os.path.join(wd, "table.json"), os.path.join(wd, "table.out")
        json.dump(table, open(tin, "w"))
        rc, log, _ = vlib.go_test("./c14/", "TestSizeTable$", env={"VERIF_IN": tin, "VERIF_OUT": tout}, timeout=600)
        if rc != 0 or not os.path.exists(tout):
            raise Inconclusive("driver TestSizeTable failed:\n" + log[-3000:])
        rows = vlib.read_ndjson(tout)
        summ = [r for r in rows if r.get("summary")][0]
        ctx.coverage["evaluations"] += summ["rows"]
        ctx.coverage["distinct_nontrivial"] += sum(1 for r in table["pad"] if r[4] not in (255,)) + len(table["frag"])
        ctx.sample({"kind": "size table rows (mtu, wireLen, existing, conf, budget)", "rows": table["pad"][100:104]})
        mism = [r for r in rows if not r.get("summary")]
        for m in mism[:200]:
            if m.get("overflow"):
                rp = ctx.save_replay("size_row_%s.json" % m["kind"], m)
                ctx.report("real %s budget exceeds the model: the datagram would be longer than the MTU / field: %s" % (m["kind"], m),
                           rp, "C14:table:%s" % m["kind"])
                break
        if mism and not ctx.violations:
            ctx.drift.append("size functions deviate from WireSize.tla without exceeding a limit: %s" % mism[:3])
        scen = named_schedules(ctx.seed, ctx.thorough())
        ctx.coverage["distinct_nontrivial"] += len(scen)
        trace = sessions.check_traces(ctx, scen, wd, "c14", INVS, timeout=3000)
        sessions.sample_trace(ctx, trace, None, n=12)
        # clients built from a profile (command-line client, apis/client) honour the profile's MTU
        pout = os.path.join(wd, "profile.ndjson")
        rc, log, _ = vlib.go_test("./c14/", "TestProfileMTU$", env={"VERIF_OUT": pout}, timeout=900)
        if rc != 0 or not os.path.exists(pout):
            raise Inconclusive("driver TestProfileMTU failed:\n" + log[-3000:])
        ctx.coverage["evaluations"] += len(vlib.read_ndjson(pout))

        def dprof(rec, inv):
            return ("%s: a client built from a profile with MTU %s emitted a datagram of %d bytes" % (inv, rec["mtu"] or "unset (1400)", rec["longest"]), "C14:%s" % inv)
        vlib.validate_records(ctx, "Trace_ProfileMTU", "Trace_ProfileMTU", pout, ("ProfileFitsMTU",), dprof, wd)
    finally:
        shutil.rmtree(wd, ignore_errors=True)


def replay(ctx, path):
    rp = json.load(open(path))
    if "scenario" not in rp:
        print("table row replay:", rp)
        return
    wd = vlib.scratch_dir("verif-c14r-")
    try:
        sessions.check_traces(ctx, [rp["scenario"]], wd, "replay", INVS)
    finally:
        shutil.rmtree(wd, ignore_errors=True)
