// Package simnet provides in-memory networks for the conformance drivers.
// They run inside testing/synctest bubbles: every blocking point is a
// channel or timer, so virtual time works.
package simnet

import (
	"context"
	"errors"
	"net"
	"os"
	"sync"
	"time"
)

// Fate decides what the network does with one datagram.
type Fate struct {
	Drop    bool
	Dup     int           // extra copies
	DupLag  time.Duration // extra copies arrive this much later
	Delay   time.Duration // hold before delivery (reorders)
	Replace []byte        // deliver these bytes instead (tamper)
	From    net.Addr      // deliver with this source address instead
	Stall   time.Duration // the sender's WriteTo blocks this long before the datagram leaves
}

// Datagram is one emitted datagram.
type Datagram struct {
	N    int // global emission number
	Src  *net.UDPAddr
	Dst  *net.UDPAddr
	Data []byte
}

// PacketNet is an in-memory UDP network.
type PacketNet struct {
	mu        sync.Mutex
	endpoints map[string]*PacketConn
	nextPort  int
	n         int
	// Decide is called under the network lock for every emitted datagram.
	Decide func(d Datagram) Fate
	// OnEmit / OnDeliver are called under the network lock (recorders).
	OnEmit    func(d Datagram, f Fate)
	OnDeliver func(d Datagram, to *net.UDPAddr)
}

// NewPacketNet creates an empty network.
func NewPacketNet() *PacketNet {
	return &PacketNet{endpoints: map[string]*PacketConn{}, nextPort: 40000}
}

// PacketConn is one socket.
type PacketConn struct {
	net    *PacketNet
	addr   *net.UDPAddr
	mu     sync.Mutex
	q      []inDatagram
	wake   chan struct{}
	closed bool
	rdl    time.Time
	dlCh   chan struct{} // closed and replaced when the deadline changes
}

type inDatagram struct {
	data []byte
	from net.Addr
}

func udpAddr(s string) *net.UDPAddr {
	a, err := net.ResolveUDPAddr("udp", s)
	if err != nil {
		panic(err)
	}
	if a.IP == nil {
		a.IP = net.IPv4(127, 0, 0, 1)
	}
	return a
}

// Listen creates a socket bound to addr ("ip:port"; port 0 picks one).
func (n *PacketNet) Listen(addr string) (*PacketConn, error) {
	n.mu.Lock()
	defer n.mu.Unlock()
	a := udpAddr(addr)
	if a.Port == 0 {
		n.nextPort++
		a.Port = n.nextPort
	}
	if _, ok := n.endpoints[a.String()]; ok {
		return nil, errors.New("address in use")
	}
	c := &PacketConn{net: n, addr: a, wake: make(chan struct{}, 1), dlCh: make(chan struct{})}
	n.endpoints[a.String()] = c
	return c, nil
}

// ListenPacket implements apicommon.PacketListenerFactory.
func (n *PacketNet) ListenPacket(ctx context.Context, network, address string) (net.PacketConn, error) {
	return n.Listen(address)
}

// Dialer returns an apicommon.PacketDialer whose sockets have IP ip.
func (n *PacketNet) Dialer(ip string) *PacketDialer { return &PacketDialer{n: n, ip: ip} }

// PacketDialer implements apicommon.PacketDialer.
type PacketDialer struct {
	n  *PacketNet
	ip string
	// Wrap, if set, wraps every created socket.
	Last *PacketConn
}

func (d *PacketDialer) ListenPacket(ctx context.Context, network, laddr, raddr string) (net.PacketConn, error) {
	if laddr == "" {
		laddr = d.ip + ":0"
	}
	c, err := d.n.Listen(laddr)
	d.Last = c
	return c, err
}

// Inject delivers raw bytes to dst as if sent from src (no Decide/OnEmit).
func (n *PacketNet) Inject(src, dst *net.UDPAddr, data []byte) {
	n.mu.Lock()
	defer n.mu.Unlock()
	n.n++
	n.deliverLocked(Datagram{N: n.n, Src: src, Dst: dst, Data: data}, src)
}

func (n *PacketNet) deliverLocked(d Datagram, from net.Addr) {
	ep := n.endpoints[d.Dst.String()]
	if ep == nil {
		return
	}
	if n.OnDeliver != nil {
		n.OnDeliver(d, d.Dst)
	}
	ep.mu.Lock()
	if !ep.closed {
		ep.q = append(ep.q, inDatagram{data: append([]byte(nil), d.Data...), from: from})
		select {
		case ep.wake <- struct{}{}:
		default:
		}
	}
	ep.mu.Unlock()
}

func (c *PacketConn) WriteTo(b []byte, addr net.Addr) (int, error) {
	c.mu.Lock()
	closed := c.closed
	c.mu.Unlock()
	if closed {
		return 0, net.ErrClosed
	}
	dst, ok := addr.(*net.UDPAddr)
	if !ok {
		dst = udpAddr(addr.String())
	}
	n := c.net
	n.mu.Lock()
	defer n.mu.Unlock()
	n.n++
	d := Datagram{N: n.n, Src: c.addr, Dst: dst, Data: append([]byte(nil), b...)}
	var f Fate
	if n.Decide != nil {
		f = n.Decide(d)
	}
	if n.OnEmit != nil {
		n.OnEmit(d, f)
	}
	if f.Stall > 0 {
		n.mu.Unlock()
		time.Sleep(f.Stall)
		n.mu.Lock()
	}
	if f.Drop {
		return len(b), nil
	}
	if f.Replace != nil {
		d.Data = f.Replace
	}
	var from net.Addr = c.addr
	if f.From != nil {
		from = f.From
	}
	for k := 0; k <= f.Dup; k++ {
		lag := f.Delay
		if k > 0 {
			lag += f.DupLag
		}
		if lag > 0 {
			dd := d
			time.AfterFunc(lag, func() {
				n.mu.Lock()
				n.deliverLocked(dd, from)
				n.mu.Unlock()
			})
		} else {
			n.deliverLocked(d, from)
		}
	}
	return len(b), nil
}

func (c *PacketConn) ReadFrom(b []byte) (int, net.Addr, error) {
	for {
		c.mu.Lock()
		if len(c.q) > 0 {
			d := c.q[0]
			c.q = c.q[1:]
			if len(c.q) > 0 {
				select {
				case c.wake <- struct{}{}:
				default:
				}
			}
			c.mu.Unlock()
			n := copy(b, d.data)
			return n, d.from, nil
		}
		if c.closed {
			c.mu.Unlock()
			return 0, nil, net.ErrClosed
		}
		dl := c.rdl
		dlCh := c.dlCh
		c.mu.Unlock()
		var timer <-chan time.Time
		if !dl.IsZero() {
			d := time.Until(dl)
			if d <= 0 {
				return 0, nil, os.ErrDeadlineExceeded
			}
			t := time.NewTimer(d)
			timer = t.C
			select {
			case <-c.wake:
				t.Stop()
			case <-dlCh:
				t.Stop()
			case <-timer:
				return 0, nil, os.ErrDeadlineExceeded
			}
		} else {
			select {
			case <-c.wake:
			case <-dlCh:
			}
		}
	}
}

func (c *PacketConn) Close() error {
	c.mu.Lock()
	if c.closed {
		c.mu.Unlock()
		return nil
	}
	c.closed = true
	close(c.dlCh)
	c.dlCh = make(chan struct{})
	c.mu.Unlock()
	c.net.mu.Lock()
	delete(c.net.endpoints, c.addr.String())
	c.net.mu.Unlock()
	return nil
}

func (c *PacketConn) LocalAddr() net.Addr { return c.addr }

func (c *PacketConn) SetDeadline(t time.Time) error { return c.SetReadDeadline(t) }

func (c *PacketConn) SetReadDeadline(t time.Time) error {
	c.mu.Lock()
	c.rdl = t
	close(c.dlCh)
	c.dlCh = make(chan struct{})
	c.mu.Unlock()
	return nil
}

func (c *PacketConn) SetWriteDeadline(t time.Time) error { return nil }
