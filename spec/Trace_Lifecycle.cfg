CONSTANTS
  Slack = 1000
  LocalBound = 3000
  RemoteBound = 8000
  FailBound = 8000
  CloseBound = 8000
SPECIFICATION Spec
INVARIANTS DeadlineBounds LocalCloseReleases RemoteCloseReleases FailureReleases ClosePrompt NothingLeftRunning
POSTCONDITION TraceAccepted
CHECK_DEADLOCK FALSE
