// Binds spec/Socks5Auth.tla to pkg/socks5: abstract negotiations are concretised into byte strings and
// played against a real socks5.Server in both authentication placements.
package c11

import (
	"context"
	"encoding/json"
	"io"
	"math/rand"
	"net"
	"strings"
	"sync"
	"sync/atomic"
	"testing"
	"time"

	"github.com/enfein/mieru/v3/pkg/socks5"

	"verifharness/vt"
)

type row struct {
	M struct {
		Has00  bool `json:"has00"`
		Has02  bool `json:"has02"`
		Others bool `json:"others"`
		Empty  bool `json:"empty"`
	} `json:"m"`
	Creds  int    `json:"creds"`
	Sup    string `json:"sup"`
	Place  string `json:"place"`
	Sel    int    `json:"sel"`
	Status int    `json:"status"`
	Served bool   `json:"served"`
}

var creds = []socks5.Credential{{User: "alice", Password: "secret"}, {User: "bob", Password: "pa ss:%00x"}}

func methods(r *rand.Rand, rw row, variant int) []byte {
	if rw.M.Empty {
		return nil
	}
	var l []byte
	if rw.M.Has00 {
		l = append(l, 0)
	}
	if rw.M.Has02 {
		l = append(l, 2)
	}
	fill := []byte{0x01, 0x03, 0x80, 0xfe, 0xff}
	if rw.M.Others {
		l = append(l, fill[r.Intn(len(fill))])
	}
	switch variant % 4 {
	case 1: // duplicates
		l = append(l, l...)
	case 2: // long list
		for len(l) < 255 {
			if rw.M.Others {
				l = append(l, fill[r.Intn(len(fill))])
			} else {
				l = append(l, l[r.Intn(len(l))])
			}
		}
	case 3: // reversed order, duplicates of the first
		l = append(l, l[0])
	}
	r.Shuffle(len(l), func(i, j int) { l[i], l[j] = l[j], l[i] })
	if variant%4 == 3 && rw.M.Has00 && rw.M.Has02 {
		// user/pass strictly before no-auth
		out := []byte{2}
		for _, b := range l {
			if b != 2 {
				out = append(out, b)
			}
		}
		l = out
	}
	return l
}

func subneg(sup string) (b []byte, complete bool) {
	rep := func(c byte, n int) []byte {
		x := make([]byte, n)
		for i := range x {
			x[i] = c
		}
		return x
	}
	mk := func(ver byte, u, p []byte) []byte {
		o := []byte{ver, byte(len(u))}
		o = append(o, u...)
		o = append(o, byte(len(p)))
		return append(o, p...)
	}
	switch sup {
	case "match":
		return mk(1, []byte("alice"), []byte("secret")), true
	case "match2":
		return mk(1, []byte("bob"), []byte("pa ss:%00x")), true
	case "wrongUser":
		return mk(1, []byte("mallory"), []byte("secret")), true
	case "wrongPass":
		return mk(1, []byte("alice"), []byte("Secret")), true
	case "emptyBoth":
		return mk(1, nil, nil), true
	case "emptyPass":
		return mk(1, []byte("alice"), nil), true
	case "long255":
		return mk(1, rep('a', 255), rep('b', 255)), true
	case "badVersion":
		return mk(5, []byte("alice"), []byte("secret")), true
	case "truncVer":
		return nil, false
	case "truncUser":
		return []byte{1, 5, 'a', 'l'}, false
	case "truncPass":
		return []byte{1, 5, 'a', 'l', 'i', 'c', 'e', 6, 's', 'e'}, false
	case "swapped":
		return mk(1, []byte("secret"), []byte("alice")), true
	case "caseUser":
		return mk(1, []byte("Alice"), []byte("secret")), true
	case "crossPair":
		return mk(1, []byte("alice"), []byte("pa ss:%00x")), true
	case "crossPair2":
		return mk(1, []byte("bob"), []byte("secret")), true
	}
	return nil, false
}

type recDialer struct {
	calls atomic.Int32
	fwd   atomic.Int32
}

func (d *recDialer) DialContext(ctx context.Context) (net.Conn, error) {
	d.calls.Add(1)
	a, b := net.Pipe()
	go func() {
		buf := make([]byte, 512)
		for {
			n, err := b.Read(buf)
			if n > 0 {
				d.fwd.Add(int32(n))
				// answer a CONNECT request with success so that the server side completes
				b.Write([]byte{5, 0, 0, 1, 127, 0, 0, 1, 0, 80})
			}
			if err != nil {
				return
			}
		}
	}()
	return a, nil
}

func readN(c net.Conn, n int, d time.Duration) []byte {
	c.SetReadDeadline(time.Now().Add(d))
	b := make([]byte, n)
	k, _ := io.ReadFull(c, b)
	return b[:k]
}

// play runs one concrete negotiation; returns (selected method or -1, status or -1, served).
func play(rw row, variant int, seed int64, stub net.Listener, stubHits *atomic.Int32) (int, int, bool, string) {
	r := rand.New(rand.NewSource(seed))
	cfg := &socks5.Config{HandshakeTimeout: 400 * time.Millisecond, AllowLoopbackDestination: true}
	if rw.Creds == 3 {
		// configured, but no RFC 1929 message can carry a 256-byte password
		cfg.AuthOpts.IngressCredentials = []socks5.Credential{{User: "alice", Password: strings.Repeat("x", 256)}}
	} else {
		cfg.AuthOpts.IngressCredentials = creds[:rw.Creds]
	}
	dialer := &recDialer{}
	if rw.Place == "clientSide" {
		cfg.UseProxy = true
		cfg.ProxyDialer = dialer
		cfg.AuthOpts.ClientSideAuthentication = true
	}
	srv, err := socks5.New(cfg)
	if err != nil {
		return -2, -2, false, err.Error()
	}
	cli, sconn := net.Pipe()
	done := make(chan struct{})
	go func() { srv.ServeConn(sconn); close(done) }()
	defer func() { cli.Close(); <-done }()
	ml := methods(r, rw, variant)
	greet := append([]byte{5, byte(len(ml))}, ml...)
	before := stubHits.Load()
	go cli.Write(greet)
	sel, status := -1, -1
	rep := readN(cli, 2, 700*time.Millisecond)
	if len(rep) == 2 && rep[0] == 5 {
		sel = int(rep[1])
	}
	if sel == 2 {
		sb, complete := subneg(rw.Sup)
		if len(sb) > 0 {
			go cli.Write(sb)
		}
		rep2 := readN(cli, 2, 900*time.Millisecond)
		if len(rep2) == 2 && rep2[0] == 1 {
			status = int(rep2[1])
			if status != 0 {
				status = 1
			}
		}
		_ = complete
	}
	// whatever happened, the application now pipelines a CONNECT request to the stub
	port := stub.Addr().(*net.TCPAddr).Port
	req := []byte{5, 1, 0, 1, 127, 0, 0, 1, byte(port >> 8), byte(port)}
	go func() { cli.SetWriteDeadline(time.Now().Add(500 * time.Millisecond)); cli.Write(req) }()
	crep := readN(cli, 10, 900*time.Millisecond)
	served := false
	if rw.Place == "clientSide" {
		served = dialer.calls.Load() > 0 || dialer.fwd.Load() > 0
	} else {
		// the destination was dialled: either the stub saw it (its accept goroutine may lag) or the reply says so
		for k := 0; k < 30 && stubHits.Load() == before; k++ {
			if len(crep) < 2 {
				break // no reply at all: nothing was dialled for us
			}
			time.Sleep(10 * time.Millisecond)
		}
		served = stubHits.Load() > before || (len(crep) >= 2 && crep[0] == 5 && crep[1] == 0)
	}
	return sel, status, served, ""
}

// TestNegotiations plays every table row (x variants) and records what the real server did.
func TestNegotiations(t *testing.T) {
	out := vt.MustCreate(t, "VERIF_OUT")
	defer out.Close()
	var rows []row
	vt.ReadLines(t, "VERIF_IN", func(line []byte) {
		var rw row
		if err := json.Unmarshal(line, &rw); err != nil {
			t.Fatalf("bad row: %v", err)
		}
		rows = append(rows, rw)
	})
	variants := vt.EnvInt("VERIF_VARIANTS", 2)
	// server-side placement rows share one stub per worker so that hits can be attributed
	type job struct {
		rw row
		v  int
	}
	jobs := make(chan job)
	var wg sync.WaitGroup
	for w := 0; w < 48; w++ {
		wg.Add(1)
		go func(w int) {
			defer wg.Done()
			stub, err := net.Listen("tcp", "127.0.0.1:0")
			if err != nil {
				t.Errorf("listen: %v", err)
				return
			}
			defer stub.Close()
			var hits atomic.Int32
			go func() {
				for {
					c, err := stub.Accept()
					if err != nil {
						return
					}
					hits.Add(1)
					c.Close()
				}
			}()
			for j := range jobs {
				sel, st, served, errs := play(j.rw, j.v, vt.Seed()*7919+int64(j.v)*31+int64(w), stub, &hits)
				out.Emit(map[string]any{"ev": "neg", "m": j.rw.M, "creds": j.rw.Creds, "sup": j.rw.Sup, "place": j.rw.Place,
					"variant": j.v, "sel": sel, "status": st, "served": served, "err": errs,
					"msel": j.rw.Sel, "mstatus": j.rw.Status, "mserved": j.rw.Served})
			}
		}(w)
	}
	for _, rw := range rows {
		for v := 0; v < variants; v++ {
			jobs <- job{rw, v}
		}
	}
	close(jobs)
	wg.Wait()
}
