SPECIFICATION Spec
INVARIANTS NoCrash VictimKeepsWorking
POSTCONDITION TraceAccepted
CHECK_DEADLOCK FALSE
