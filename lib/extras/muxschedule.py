#!/usr/bin/env python3
"""Extra (not a listed property): spec/MuxSchedule.tla - client-side scheduling of sessions onto underlays.  TLC checks
NoSessionOnClosedUnderlay and ClosedOnlyIfDisabled exhaustively (2 concurrent dials, 3 underlays, 9 steps, the gap between the locked
and the unlocked half of DialContext included); simulated and named behaviours are replayed (sequentialised) on a real client mux over
the in-memory TCP network in virtual time; TLC validates where every session landed and which underlays stayed open
(Trace_MuxSchedule: DialSucceeds, LandsOnOpen, SessionsKeepTheirUnderlay on the logged values; agreement with the model as drift).
Usage: lib/extras/muxschedule.py [seed]"""
import json, os, shutil, sys
sys.path.insert(0, os.path.join(os.path.dirname(os.path.abspath(__file__)), ".."))
import vlib

seed = int(sys.argv[1]) if len(sys.argv) > 1 else 1
r = vlib.tlc("MuxSchedule", "MC_MuxSchedule", timeout=1800, workers=8)
if r.violated or r.error:
    print("MODEL: %s %s" % (r.violated, r.error)); sys.exit(2)
print("MuxSchedule.tla exhaustive: %d distinct states, no violation" % r.distinct)
r = vlib.tlc("MuxSchedule", "MC_MuxSchedule_sim", simulate=150, depth=20, seed=seed, workers=1, timeout=600)
beh = sorted({json.dumps(b) for _t, b in r.prints})
P, E = {"op": "pick", "d": 1, "u": 0}, (lambda u: {"op": "end", "u": u})
A = lambda n: {"op": "advance", "n": n}
named = [
    [P, E(1), A(200), A(200), A(200), P, A(6), P],                    # an empty underlay is disabled, then closed; the next dial gets a new one
    [P, P, P, E(1), A(200), P, P, A(200), A(200), E(1), A(200), A(200), A(200)],
    [P, A(6), A(6), A(6), P, P, E(1), E(1), E(1), A(200), P, A(200), A(200), A(200), A(200), P],
    [P, P, P, P, P, P, A(200), E(1), E(2), A(200), A(200), A(200), A(200), P],
]
beh += [json.dumps(n) for n in named]
wd = vlib.scratch_dir("verif-extra-")
rc_all = 0
try:
    fin, fout = os.path.join(wd, "in.ndjson"), os.path.join(wd, "out.ndjson")
    open(fin, "w").write("\n".join(beh) + "\n")
    rc, log, _ = vlib.go_test("./extra/", "TestMuxSchedule$", env={"VERIF_IN": fin, "VERIF_OUT": fout}, timeout=1800)
    if rc != 0 or not os.path.exists(fout):
        print("INCONCLUSIVE driver failed\n" + log[-2000:]); sys.exit(2)
    recs = vlib.read_ndjson(fout)
    closes = sum(1 for i, e in enumerate(recs) if i and e["b"] == recs[i - 1]["b"] and len(e["open"]) < len(recs[i - 1]["open"]))
    print("replayed %d behaviours: %d dials (%d on an existing underlay), %d underlay closures observed"
          % (len(beh), sum(1 for e in recs if e["ev"] == "dial"), sum(1 for e in recs if e["ev"] == "dial" and not e["fresh"]), closes))
    for cfg, what in (("Trace_MuxSchedule", "VIOLATED on the real mux"), ("Trace_MuxSchedule_conf", "drift from MuxSchedule.tla")):
        t = vlib.tlc("Trace_MuxSchedule", cfg, workers=1, timeout=900, env={"VERIF_TRACE": fout}, keep_out=True)
        if t.violated:
            print("%s: %s at %s" % (what, t.violated, (t.trace[-1] if t.trace else "")[:600]))
            rc_all = 1
        elif t.error:
            print("INCONCLUSIVE %s" % t.error); rc_all = max(rc_all, 2)
        else:
            print("%s: %d records accepted" % (cfg, t.distinct - 1))
    sys.exit(rc_all)
finally:
    shutil.rmtree(wd, ignore_errors=True)
