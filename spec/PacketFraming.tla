---------------------------- MODULE PacketFraming ----------------------------
(***************************************************************************)
(* UDP-associate encapsulation of docs/protocol.md / apis/common/          *)
(* packet_over_stream.go:   0x00 | len16 | data | 0xff   per datagram,      *)
(* carried by a byte stream.  Writer and reader are byte automata; the     *)
(* reader is driven one byte at a time, so every chunking of the stream is *)
(* covered.  Bytes are abstracted to the alphabet {0, 255, 7}: the two     *)
(* marker values and "anything else"; lengths are one model digit.          *)
(***************************************************************************)
EXTENDS Integers, Sequences, FiniteSets, TLC, Json

Alphabet == {0, 255, 7}
MaxLen == 3
BufLen == 3          \* the reader's buffer in model units; a frame announcing more is oversized
Datagram == UNION {[1..n -> Alphabet] : n \in 0..MaxLen}

Frame(d) == <<0, Len(d)>> \o d \o <<255>>       \* marker1, length (one model digit), data, marker2
RECURSIVE Stream(_)
Stream(ds) == IF ds = <<>> THEN <<>> ELSE Frame(Head(ds)) \o Stream(Tail(ds))

\* reader automaton: state = [pc, need, cur, out, err]
RInit == [pc |-> "m1", need |-> 0, cur |-> <<>>, out |-> <<>>, err |-> ""]
RStep(s, b) ==
  IF s.err # "" THEN s
  ELSE CASE s.pc = "m1" -> IF b = 0 THEN [s EXCEPT !.pc = "len"] ELSE [s EXCEPT !.err = "badprefix"]
         [] s.pc = "len" -> IF b > BufLen THEN [s EXCEPT !.err = "shortbuffer"]
                            ELSE IF b = 0 THEN [s EXCEPT !.pc = "m2", !.need = 0, !.cur = <<>>]
                            ELSE [s EXCEPT !.pc = "data", !.need = b, !.cur = <<>>]
         [] s.pc = "data" -> LET c == Append(s.cur, b) IN
                             IF Len(c) = s.need THEN [s EXCEPT !.pc = "m2", !.cur = c] ELSE [s EXCEPT !.cur = c]
         [] s.pc = "m2" -> IF b = 255 THEN [s EXCEPT !.pc = "m1", !.out = Append(@, s.cur), !.cur = <<>>]
                           ELSE [s EXCEPT !.err = "badsuffix"]
RECURSIVE Run(_, _)
Run(s, bytes) == IF bytes = <<>> THEN s ELSE Run(RStep(s, Head(bytes)), Tail(bytes))
\* end of stream: inside a frame it is an error, between frames a clean end
Finish(s) == IF s.err # "" THEN s ELSE IF s.pc = "m1" THEN s ELSE [s EXCEPT !.err = "truncated"]
Read(bytes) == Finish(Run(RInit, bytes))

IsPrefix(a, b) == Len(a) <= Len(b) /\ SubSeq(b, 1, Len(a)) = a

Seqs(n) == UNION {[1..k -> Datagram] : k \in 0..n}

\* C18
RoundTrip(n) == \A ds \in Seqs(n) : LET r == Read(Stream(ds)) IN r.err = "" /\ r.out = ds
\* a cut anywhere inside the stream never yields a datagram that was not written; it ends in an error unless it falls on a frame boundary
Truncation(n) == \A ds \in Seqs(n) : \A k \in 0..Len(Stream(ds)) :
                   LET r == Read(SubSeq(Stream(ds), 1, k)) IN
                   /\ IsPrefix(r.out, ds)
                   /\ (r.err = "" => Stream(r.out) = SubSeq(Stream(ds), 1, k))
\* a wrong marker is reported at that frame: everything before it is delivered, nothing after
BadMarkers(n) == \A ds \in Seqs(n) : \A j \in 1..Len(ds) : \A which \in {"m1", "m2"} : \A v \in {255, 7, 0} :
                   LET before == Stream(SubSeq(ds, 1, j - 1))
                       f == Frame(ds[j])
                       pos == IF which = "m1" THEN 1 ELSE Len(f)
                       bad == [f EXCEPT ![pos] = v]
                       r == Read(before \o bad \o Stream(SubSeq(ds, j + 1, Len(ds))))
                   IN f[pos] # v => (r.err # "" /\ r.out = SubSeq(ds, 1, j - 1))
Oversize == \A d \in Datagram : Read(<<0, BufLen + 1>> \o d \o <<255>>).err = "shortbuffer"

VARIABLE x
Init == x = 0
Next == x' = x /\ FALSE
=============================================================================
