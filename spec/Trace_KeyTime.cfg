CONSTANTS
  CacheChecksEpoch = TRUE
SPECIFICATION Spec
INVARIANTS ClientUsesOwnSlot Agree StaleStampRefused StaleKeyRefused
POSTCONDITION TraceAccepted
CHECK_DEADLOCK FALSE
