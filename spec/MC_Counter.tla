------------------------------ MODULE MC_Counter ------------------------------
EXTENDS Counter
MCUnits == <<2, 4, 8, 16>>
MCThresholds == <<4, 8, 16, 128>>
Bound == Len(hist) <= 4 /\ now <= 200 /\ value <= 6
BoundBig == Len(hist) <= 5 /\ now <= 300 /\ value <= 8
=============================================================================
