CONSTANTS
  TraceTransport = "tcp"
SPECIFICATION Spec
INVARIANTS ModelSilent ModelAccepts
POSTCONDITION TraceAccepted
CHECK_DEADLOCK FALSE
