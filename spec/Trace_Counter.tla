----------------------------- MODULE Trace_Counter -----------------------------
(* Validates histories RECORDED FROM THE REAL metrics.Counter (virtual time, roll-ups forced at chosen operations) against *)
(* Counter.tla at the real constants, and quota admissions of real server sessions against Quota.tla.                       *)
EXTENDS Integers, Sequences, TLC, Json, IOUtils

Trace == ndJsonDeserialize(IOEnv.VERIF_TRACE)
RealUnits == <<1000, 60000, 3600000, 86400000>>
RealThresholds == <<2000, 120000, 7200000, 691200000>>

VARIABLES now, value, hist, op, l, last
C == INSTANCE Counter WITH K <- 1000, Units <- RealUnits, Thresholds <- RealThresholds, Deltas <- {}, Steps <- {}, Pres <- {}
tvars == <<now, value, hist, op, l, last>>

E == Trace[l]
LogH(e) == [i \in 1..Len(e.hist) |-> C!H(e.hist[i][1], e.hist[i][2], e.hist[i][3])]

Init == C!Init /\ l = 1 /\ last = [ev |-> "none"]
New == /\ E.ev = "new" /\ now' = 0 /\ value' = 0 /\ hist' = <<>> /\ op' = 0 /\ last' = [ev |-> "new"]
AddEv == /\ E.ev = "add"
         /\ C!Add(E.dt, E.delta, E.pre)
         /\ LET lh == LogH(E) IN
            last' = [ev |-> "add", value |-> E.value, lh |-> lh, wins |-> E.wins, snapsum |-> E.snapsum, snapvalue |-> E.snapvalue,
                     conforms |-> (lh = hist' /\ E.value = value')]
Quota == /\ E.ev = "quota" /\ UNCHANGED <<now, value, hist, op>>
         /\ last' = [ev |-> "quota", kind |-> E.kind, admit |-> E.admit, echoed |-> E.echoed, relayed |-> E.relayed, err |-> E.err,
                     upcount |-> E.upcount, downcount |-> E.downcount]
Next == l <= Len(Trace) /\ l' = l + 1 /\ (New \/ AddEv \/ Quota)
Spec == Init /\ [][Next]_tvars

\* C19 on what the real counter exported
Conserved == last.ev = "add" => C!SumH(last.lh) = last.value
Ordered == last.ev = "add" => \A i \in 1..(Len(last.lh) - 1) : last.lh[i].t <= last.lh[i + 1].t
WindowsOK == last.ev = "add" => \A i \in 1..Len(last.wins) :
               /\ last.wins[i][3] <= last.value
               /\ last.wins[i][3] = C!Window(last.lh, last.wins[i][1], last.wins[i][2])
SnapshotStable == last.ev = "add" => last.snapsum = last.snapvalue
Conforms == last.ev = "add" => last.conforms
\* quota: refused with nothing relayed when over the allowance; served otherwise
QuotaBinds == (last.ev = "quota" /\ ~last.admit) => (last.echoed = 0 /\ last.relayed = 0)
QuotaSpares == (last.ev = "quota" /\ last.admit) => (last.echoed = 700 /\ last.err = "")
\* every byte the session handed to / accepted from its application is counted once against its user
CountedOnce == last.ev = "quota" => (last.upcount = last.relayed /\ (last.admit => last.downcount = last.relayed))
TraceAccepted == TLCGet("stats").diameter - 1 = Len(Trace)
=============================================================================
