package c10

import (
	"context"
	"fmt"
	"math/rand"
	"net"
	"sync"
	"sync/atomic"
	"testing"
	"testing/synctest"
	"time"

	"github.com/enfein/mieru/v3/pkg/common"
	"github.com/enfein/mieru/v3/pkg/protocol"

	"verifharness/refcodec"
	"verifharness/simnet"
)

// runClientRole: the real endpoint under attack is a client mux (user mallory's credential is what it shares with the hostile
// server); the victim is a second client mux of the same process (alice) that talks to a genuine real server.
func runClientRole(t *testing.T, b *behaviour) {
	synctest.Test(t, func(t *testing.T) {
		udp := b.Tr == "udp"
		w := &serverWorld{t: t, udp: udp, pnet: simnet.NewPacketNet(), snet: simnet.NewStreamNet(), r: rand.New(rand.NewSource(int64(b.ID)*104729 + 7))}
		w.start() // the genuine server for the victim
		time.Sleep(50 * time.Millisecond)
		w.dialVictim()
		if ok, note := w.victimCheck(); !ok {
			emit(event{Ev: "N", ID: b.ID, Tr: b.Tr, Role: b.Role, Note: "victim cannot start: " + note})
		}
		hashed := refcodec.HashedPassword(mallory, malloryPw)
		keys := refcodec.Keys3(hashed, time.Now().Unix())
		p := &peer{r: w.r, key: refcodec.KeyAt(hashed, time.Now().Unix()), user: mallory, toServer: false, victimSid: func() uint32 { return w.vsid.Load() }}

		// the client under attack
		cmux := protocol.NewMux(true)
		cmux.SetClientUserNamePassword(mallory, hashed)
		cmux.SetResolver(nilResolver{})
		if udp {
			cmux.SetPacketDialer(w.pnet.Dialer("10.4.0.1"))
			cmux.SetEndpoints([]protocol.UnderlayProperties{protocol.NewUnderlayProperties(mtu, common.PacketTransport, nil, &net.UDPAddr{IP: net.IPv4(10, 1, 0, 9), Port: 7000})})
		} else {
			cmux.SetDialer(w.snet.Dialer("10.4.0.1"))
			cmux.SetEndpoints([]protocol.UnderlayProperties{protocol.NewUnderlayProperties(mtu, common.StreamTransport, nil, &net.TCPAddr{IP: net.IPv4(10, 1, 0, 9), Port: 7000})})
		}
		var mu sync.Mutex
		var conns []net.Conn
		var opened atomic.Int32 // open requests the hostile server has seen
		var reach atomic.Int64  // bytes the application of the client under attack received from the hostile server

		// ---- the hostile server ------------------------------------------------------------------------------------------------
		var usock *simnet.PacketConn
		var clientAddr net.Addr
		var tconn net.Conn
		var enc *refcodec.StreamEncoder
		var first []byte
		var dead atomic.Bool
		other := &net.UDPAddr{IP: net.IPv4(10, 1, 0, 10), Port: 7000}
		srvAddr := &net.UDPAddr{IP: net.IPv4(10, 1, 0, 9), Port: 7000}
		var listener net.Listener
		if udp {
			usock, _ = w.pnet.Listen("10.1.0.9:7000")
			go func() {
				buf := make([]byte, 2048)
				for {
					n, addr, err := usock.ReadFrom(buf)
					if err != nil {
						return
					}
					seg, derr := refcodec.DecodeDatagram(keys, buf[:n])
					if derr != nil {
						continue
					}
					if seg.Meta.Type == refcodec.T("openSessionRequest") {
						mu.Lock()
						clientAddr = addr
						if p.sid != seg.Meta.SID {
							p.sid, p.seq = seg.Meta.SID, 0
							opened.Add(1)
						}
						mu.Unlock()
					}
				}
			}()
		} else {
			listener, _ = w.snet.Listen(context.Background(), "tcp", "10.1.0.9:7000")
			go func() {
				for {
					c, err := listener.Accept()
					if err != nil {
						return
					}
					go func(c net.Conn) {
						dec := &refcodec.StreamDecoder{Keys: keys}
						buf := make([]byte, 8192)
						got := false
						for {
							n, err := c.Read(buf)
							if n > 0 && !got {
								if segs := dec.Feed(buf[:n]); len(segs) > 0 {
									got = true
									mu.Lock()
									tconn, enc = c, &refcodec.StreamEncoder{Key: p.key, User: mallory}
									first = make([]byte, 24)
									w.r.Read(first)
									p.sid, p.seq = segs[0].Meta.SID, 0
									dead.Store(false)
									opened.Add(1)
									mu.Unlock()
								}
							}
							if err != nil {
								mu.Lock()
								if c == tconn {
									dead.Store(true)
								}
								mu.Unlock()
								return
							}
						}
					}(c)
				}
			}()
		}
		send := func(u *unit, data []byte) {
			mu.Lock()
			defer mu.Unlock()
			if udp {
				if clientAddr == nil {
					return
				}
				from := srvAddr
				if u != nil && u.From == "otherAddr" {
					from = other
				}
				ca := clientAddr.(*net.UDPAddr)
				w.pnet.Inject(from, ca, data)
				return
			}
			if tconn != nil {
				tconn.Write(data)
			}
		}
		build := func(u *unit) []byte {
			mu.Lock()
			defer mu.Unlock()
			if udp {
				return p.build(u, nil, nil)
			}
			if enc == nil {
				return nil
			}
			return p.build(u, enc, first)
		}
		honestOpen := func() {
			before := opened.Load()
			go func() {
				ctx, cancel := context.WithTimeout(context.Background(), 5*time.Second)
				defer cancel()
				c, err := cmux.DialContext(ctx)
				if err != nil {
					return
				}
				mu.Lock()
				conns = append(conns, c)
				mu.Unlock()
				c.Write([]byte("hello from the client under attack"))
				buf := make([]byte, 4096)
				for {
					c.SetReadDeadline(time.Now().Add(30 * time.Second))
					n, err := c.Read(buf)
					reach.Add(int64(n))
					if err != nil {
						c.Close()
						return
					}
				}
			}()
			for i := 0; i < 200 && opened.Load() == before; i++ {
				time.Sleep(10 * time.Millisecond)
			}
			u := &unit{Type: "openResp", Sid: "own", Seq: "next", Ack: "zero", Win: "max", Frag: "zero", Len: "exact", Pad: "small", Body: "empty", Le: "valid", Ts: "now", From: "ownAddr", Status: "zero"}
			send(u, build(u))
			// one honest data segment, so that the session is demonstrably usable before the hostile units arrive
			d := &unit{Type: "dataS2C", Sid: "own", Seq: "next", Ack: "zero", Win: "max", Frag: "zero", Len: "exact", Pad: "small", Body: "auth", Le: "valid", Ts: "now", From: "ownAddr", Status: "zero"}
			send(d, build(d))
		}
		for k, st := range b.Steps {
			if contains(b.Skip, k) {
				continue
			}
			e := event{Ev: "S", ID: b.ID, K: k, Tr: b.Tr, Role: b.Role, Op: st.Op}
			switch st.Op {
			case "open":
				emit(e)
				honestOpen()
			case "close":
				emit(e)
				u := &unit{Type: "closeReq", Sid: "own", Seq: "next", Ack: "zero", Win: "max", Frag: "zero", Len: "exact", Pad: "small", Body: "empty", Le: "valid", Ts: "now", From: "ownAddr", Status: "zero"}
				send(u, build(u))
				mu.Lock()
				p.closedSid = p.sid
				mu.Unlock()
			case "unit":
				e.U = *st.U
				if !udp && (tconn == nil || dead.Load()) {
					honestOpen()
					time.Sleep(5 * time.Millisecond)
				}
				data := build(st.U)
				e.Hex = hexHead(data)
				emit(e)
				if data != nil {
					send(st.U, data)
				}
			}
			time.Sleep(20 * time.Millisecond)
			ok, note := w.victimCheck()
			emit(event{Ev: "V", ID: b.ID, K: k, Tr: b.Tr, Role: b.Role, Op: st.Op, Ok: ok, Note: note})
			if !ok {
				w.dialVictim()
			}
		}
		mu.Lock()
		for _, c := range conns {
			c.Close()
		}
		mu.Unlock()
		if w.vconn != nil {
			w.vconn.Close()
		}
		time.Sleep(70 * time.Second)
		cmux.Close()
		w.vmux.Close()
		w.smux.Close()
		if usock != nil {
			usock.Close()
		}
		if listener != nil {
			listener.Close()
		}
		mu.Lock()
		if tconn != nil {
			tconn.Close()
		}
		mu.Unlock()
		time.Sleep(150 * time.Second)
		emit(event{Ev: "E", ID: b.ID, Tr: b.Tr, Role: b.Role, Ok: true, Note: fmt.Sprintf("reach=%d", reach.Load())})
	})
}
