CONSTANTS
  UnitBits = 2
  ChunkUnits = 4
  MaxChunks = 2
  Rots = {0, 3}
INIT Init
NEXT Next
CHECK_DEADLOCK FALSE
