----------------------------- MODULE MuxSchedule -----------------------------
(***************************************************************************)
(* Client-side scheduling of sessions onto underlays (pkg/protocol/mux.go   *)
(* DialContext, maybePickExistingUnderlay, cleanUnderlay, newUnderlay;      *)
(* pkg/protocol/scheduler.go).  One step of DialContext under Mux.mu        *)
(* (clean + pick) and one outside it (IncPending, AddSession, DecPending,   *)
(* or a new underlay if the picked one refuses); the 5 s maintenance tick   *)
(* (cleanUnderlay(true) on a client) and other dials may run in between.    *)
(* Time in seconds; idleness is the uncertain value of Scheduler.tla, so    *)
(* time advances by 6 s (at least one maintenance tick) or by 200 s.        *)
(* Growth of the specification beyond the listed properties (DESIGN 12.8).  *)
(***************************************************************************)
EXTENDS Integers, Sequences, FiniteSets, TLC, Json

CONSTANTS MaxU,        \* underlays ever created
          MaxSteps,
          Dialers      \* concurrent DialContext calls
Zero == -1
IdleLo == 120
IdleHi == 180
U == 1..MaxU

VARIABLES now,
          created,     \* number of underlays created so far
          sess,        \* u -> sessions the underlay still counts (SessionCount)
          ending,      \* u -> of those, sessions the application has closed: the underlay forgets them when its event loop next
                       \* comes round to its clean-up - after the next segment or read timeout, at the latest 120 s later
          pend,        \* u -> scheduler.pending
          last,        \* u -> scheduler.lastScheduleTime
          dis,         \* u -> scheduler.disableTime
          closed,      \* u -> closed (by cleanup)
          pc,          \* dialer -> "idle" | "picked"
          pick,        \* dialer -> underlay picked under the lock (0 = none: create one)
          hist
vars == <<now, created, sess, ending, pend, last, dis, closed, pc, pick, hist>>

Exists(u) == u >= 1 /\ u <= created
LongAgo(t) == now - t > IdleHi
Recent(t) == now - t < IdleLo
IsDisabled(u) == dis[u] # Zero /\ now - dis[u] > 0
Idle(u) == dis[u] # Zero /\ LongAgo(last[u]) /\ LongAgo(dis[u])
Active(u) == Exists(u) /\ ~closed[u] /\ ~IsDisabled(u)

Init == /\ now = 1000 /\ created = 0
        /\ sess = [u \in U |-> 0] /\ ending = [u \in U |-> 0] /\ pend = [u \in U |-> 0] /\ last = [u \in U |-> Zero] /\ dis = [u \in U |-> Zero]
        /\ closed = [u \in U |-> FALSE] /\ pc = [d \in Dialers |-> "idle"] /\ pick = [d \in Dialers |-> 0] /\ hist = <<>>
Room == Len(hist) < MaxSteps
Log(r) == hist' = Append(hist, r)

\* cleanUnderlay(true), under Mux.mu: close what is empty and idle, then try to disable what is empty
CleanClosed == [u \in U |-> closed[u] \/ (Exists(u) /\ ~closed[u] /\ sess[u] = 0 /\ Idle(u))]
CanDisable(u) == Exists(u) /\ ~closed[u] /\ sess[u] = 0 /\ dis[u] = Zero /\ pend[u] = 0 /\ (last[u] = Zero \/ LongAgo(last[u]))
CleanDis == [u \in U |-> IF CanDisable(u) THEN now ELSE dis[u]]

\* step 1 of DialContext (holding mu): clean, then pick an active underlay or decide to create one
Pick(d, u) == /\ Room /\ pc[d] = "idle"
              /\ closed' = CleanClosed
              /\ dis' = CleanDis
              /\ (IF u = 0 THEN TRUE ELSE Exists(u) /\ ~CleanClosed[u] /\ ~(CleanDis[u] # Zero /\ now - CleanDis[u] > 0))
              /\ pc' = [pc EXCEPT ![d] = "picked"] /\ pick' = [pick EXCEPT ![d] = u]
              /\ Log([op |-> "pick", d |-> d, u |-> u])
              /\ UNCHANGED <<now, created, sess, ending, pend, last>>
\* step 2 (not holding mu): IncPending on the pick; if it refuses, or nothing was picked, a new underlay; AddSession; DecPending
Attach(d) == /\ Room /\ pc[d] = "picked"
             /\ LET p == pick[d]
                    ok == p # 0 /\ ~IsDisabled(p)
                    t == IF ok THEN p ELSE created + 1
                IN /\ t <= MaxU
                   /\ created' = IF ok THEN created ELSE created + 1
                   /\ sess' = [sess EXCEPT ![t] = @ + 1]
                   /\ last' = [last EXCEPT ![t] = now]
                   /\ Log([op |-> "attach", d |-> d, u |-> t, fresh |-> ~ok, onclosed |-> closed[t]])
             /\ pc' = [pc EXCEPT ![d] = "idle"] /\ pick' = [pick EXCEPT ![d] = 0]
             /\ UNCHANGED <<now, ending, pend, dis, closed>>
End(u) == /\ Room /\ Exists(u) /\ sess[u] - ending[u] > 0
          /\ ending' = [ending EXCEPT ![u] = @ + 1] /\ Log([op |-> "end", u |-> u])
          /\ UNCHANGED <<now, created, sess, pend, last, dis, closed, pc, pick>>
\* time passes: 6 s (one or two maintenance ticks) or 200 s (many); the maintenance loop cleans with the clock at its ticks, and the
\* effect of the last tick is what remains.  No long wait can sit between the two steps of a dial.
\* the underlay's own clean-up forgets closed sessions: any time after they ended, certainly within a 200 s step
Forget(u) == /\ Exists(u) /\ ending[u] > 0
             /\ sess' = [sess EXCEPT ![u] = @ - ending[u]] /\ ending' = [ending EXCEPT ![u] = 0]
             /\ UNCHANGED <<now, created, pend, last, dis, closed, pc, pick, hist>>
Advance(n) == /\ Room /\ (n = 200 => \A d \in Dialers : pc[d] = "idle")
              /\ (n = 200 => \A u \in U : ending[u] = 0)
              /\ now' = now + n
              /\ LET cl == [u \in U |-> closed[u] \/ (Exists(u) /\ sess[u] = 0 /\ dis[u] # Zero /\ (now + n) - last[u] > IdleHi /\ (now + n) - dis[u] > IdleHi)]
                     canDis(u) == Exists(u) /\ ~cl[u] /\ sess[u] = 0 /\ dis[u] = Zero /\ pend[u] = 0 /\ (last[u] = Zero \/ (now + n) - last[u] > IdleHi)
                 IN /\ closed' = cl
                    /\ dis' = [u \in U |-> IF canDis(u) THEN now + n ELSE dis[u]]   \* at the latest at the last tick
              /\ Log([op |-> "advance", n |-> n])
              /\ UNCHANGED <<created, sess, ending, pend, last, pc, pick>>

Next == \/ \E d \in Dialers, u \in 0..MaxU : Pick(d, u)
        \/ \E d \in Dialers : Attach(d)
        \/ \E u \in U : End(u) \/ Forget(u)
        \/ \E n \in {6, 200} : Advance(n)
Spec == Init /\ [][Next]_vars

\* what a user of the mux relies on
NoSessionOnClosedUnderlay == \A u \in U : closed[u] => sess[u] - ending[u] = 0          \* cleanup never takes an underlay away from a session, a dial never lands on a closed one
ClosedOnlyIfDisabled == \A u \in U : closed[u] => dis[u] # Zero
DumpHist == (Len(hist) = MaxSteps) => PrintT(<<"BEH", ToJson(hist)>>)
=============================================================================
