------------------------- MODULE Trace_ReplayCache -------------------------
(* Validates histories RECORDED FROM THE REAL CACHE (pkg/replay) against    *)
(* ReplayCache.  Every logged call is one IsDuplicate action; the logged    *)
(* return value and generation sizes are bound to the action's result.      *)
(* Layer A (property): NoMiss / NoFalsePositive are evaluated with the      *)
(* LOGGED result.  Layer B (conformance): if the logged result or sizes     *)
(* differ from the model's, drift is set and the model state is kept        *)
(* (deterministic, one successor per line, so validation is linear).        *)
EXTENDS Integers, FiniteSets, Sequences, TLC, Json, IOUtils

Trace == ndJsonDeserialize(IOEnv.VERIF_TRACE)

TraceItems == {Trace[k].item : k \in 1..Len(Trace)} \ {""}
TraceCap == Trace[1].cap
TraceInterval == Trace[1].interval
TraceSteps == {Trace[k].dt : k \in 1..Len(Trace)}
CarryTagC == TRUE

VARIABLES ttl, cur, prev, rec, seen, last, l, drift

RC == INSTANCE ReplayCache WITH Items <- TraceItems, Tags <- {"A", "B", "C", "D"},
        Cap <- TraceCap, Interval <- TraceInterval, Steps <- TraceSteps, CarryTag <- CarryTagC

tvars == <<ttl, cur, prev, rec, seen, last, l, drift>>

TraceInit == RC!Init /\ l = 1 /\ drift = 0

New == /\ l <= Len(Trace) /\ Trace[l].ev = "new"
       /\ ttl' = TraceInterval /\ cur' = RC!Empty /\ prev' = RC!Empty
       /\ rec' = [i \in TraceItems |-> RC!NoRec] /\ seen' = [i \in TraceItems |-> {}]
       /\ last' = [hit |-> FALSE]
       /\ l' = l + 1 /\ UNCHANGED drift

Call == /\ l <= Len(Trace) /\ Trace[l].ev = "call"
        /\ LET e == Trace[l]
               a == RC!AfterExpiry(e.dt)
               k == RC!Lookup(a.c, a.p, e.item, e.tag)
               conform == k.res = e.res /\ RC!Size(k.c) = e.szc /\ RC!Size(a.p) = e.szp
           IN
           /\ ttl' = a.t /\ cur' = k.c /\ prev' = a.p          \* Layer B: the model's cache
           /\ RC!Ghost(e.dt, e.item, e.tag, e.res)              \* Layer A: driven by the LOGGED answer
           /\ last' = [hit |-> TRUE, dt |-> e.dt, item |-> e.item, tag |-> e.tag, res |-> e.res,
                       must |-> RC!Must(e.dt, e.item, e.tag), seenBefore |-> seen[e.item],
                       szc |-> e.szc, szp |-> e.szp]
           /\ drift' = IF conform THEN drift
                       ELSE IF drift = 0 /\ PrintT(<<"DRIFT", ToString(l)>>) THEN l ELSE drift
        /\ l' = l + 1

TraceNext == New \/ Call
TraceSpec == TraceInit /\ [][TraceNext]_tvars

\* Layer A: the property on what the REAL code answered (the line just consumed).
RealNoMiss == RC!NoMiss
RealNoFalsePositive == RC!NoFalsePositive

TraceAccepted == TLCGet("stats").diameter - 1 = Len(Trace)
NoDrift == drift = 0
=============================================================================
