------------------------------- MODULE Counter -------------------------------
(***************************************************************************)
(* Time-series counter of pkg/metrics/counter.go: value, history of        *)
(* (time, delta, roll-up label), operation count; Add appends and, every K *)
(* operations, runs the eight roll-up passes exactly as coded (age         *)
(* threshold, truncation to the unit, merging of equal truncated times).   *)
(* Parametric in the units so that TLC explores a scaled instance          *)
(* exhaustively and validates recorded histories at the real constants.    *)
(***************************************************************************)
EXTENDS Integers, Sequences, FiniteSets, TLC

CONSTANTS K,                       \* roll-up every K-th operation (1000 in the code)
          Units,                   \* <<second, minute, hour, day>> in ticks
          Thresholds,              \* <<2 s, 120 s, 120 min, 8 d>> in ticks
          Deltas, Steps, Pres      \* values explored by the model

VARIABLES now, value, hist, op
vars == <<now, value, hist, op>>

H(t, d, lab) == [t |-> t, d |-> d, lab |-> lab]
Trunc(t, u) == t - (t % u)

RECURSIVE SumH(_)
SumH(h) == IF h = <<>> THEN 0 ELSE Head(h).d + SumH(Tail(h))

\* one pass of doRollUp: entries labelled `from`, older than th, are truncated to unit u, relabelled `to`, and merged
\* with the pending rolled-up entry when the truncated times are equal
RECURSIVE Pass(_, _, _, _, _, _, _, _)
Pass(h, from, to, th, u, clock, last, acc) ==
  IF h = <<>> THEN (IF last = <<>> THEN acc ELSE Append(acc, last[1]))
  ELSE LET e == Head(h) IN
       IF e.lab # from \/ clock - e.t <= th
       THEN Pass(Tail(h), from, to, th, u, clock, <<>>, (IF last = <<>> THEN acc ELSE Append(acc, last[1])) \o <<e>>)
       ELSE LET t == Trunc(e.t, u) IN
            IF last = <<>> THEN Pass(Tail(h), from, to, th, u, clock, <<H(t, e.d, to)>>, acc)
            ELSE IF last[1].t = t THEN Pass(Tail(h), from, to, th, u, clock, <<H(t, last[1].d + e.d, to)>>, acc)
            ELSE Pass(Tail(h), from, to, th, u, clock, <<H(t, e.d, to)>>, Append(acc, last[1]))

P(h, from, to, k, clock) == Pass(h, from, to, Thresholds[k], Units[k], clock, <<>>, <<>>)
RollUp(h, clock) ==
  LET a1 == P(h, 0, 1, 1, clock)   a2 == P(a1, 1, 1, 1, clock)
      b1 == P(a2, 1, 2, 2, clock)  b2 == P(b1, 2, 2, 2, clock)
      c1 == P(b2, 2, 3, 3, clock)  c2 == P(c1, 3, 3, 3, clock)
      d1 == P(c2, 3, 4, 4, clock)  d2 == P(d1, 4, 4, 4, clock)
  IN d2

Init == now = 0 /\ value = 0 /\ hist = <<>> /\ op = 0

\* `pre` other operations (Name, Load, ...) happen first; then Add(delta) dt ticks later
Add(dt, delta, pre) ==
  /\ now' = now + dt
  /\ op' = op + pre + 1
  /\ IF delta = 0 THEN UNCHANGED <<value, hist>>
     ELSE /\ value' = value + delta
          /\ LET h1 == Append(hist, H(now', delta, 0))
             IN hist' = IF op' % K = 0 THEN RollUp(h1, now') ELSE h1

Next == \E dt \in Steps, d \in Deltas, pre \in Pres : Add(dt, d, pre)
Spec == Init /\ [][Next]_vars

\* DeltaBetween(t1, t2): entries with t1 < time <= t2
Window(h, t1, t2) == SumH(SelectSeq(h, LAMBDA e : e.t > t1 /\ e.t <= t2))

\* C19
Conserved == SumH(hist) = value
Ordered == \A i \in 1..(Len(hist) - 1) : hist[i].t <= hist[i + 1].t
WindowBounded == \A i \in 1..Len(hist), j \in 1..Len(hist) : i <= j => Window(hist, hist[i].t - 1, hist[j].t) <= value
NoFuture == \A i \in 1..Len(hist) : hist[i].t <= now
LabelsMonotone == \A i \in 1..(Len(hist) - 1) : hist[i].lab >= hist[i + 1].lab
RollUpKeepsTotal == [][SumH(hist') = SumH(hist) + (value' - value)]_vars
=============================================================================
