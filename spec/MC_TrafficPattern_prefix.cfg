CONSTANTS
  MinClamp = FALSE
INIT Init
NEXT Next
INVARIANTS NonceSound
CHECK_DEADLOCK FALSE
