"""C08 - clocks within one minute always agree on keys; stale segments are refused.

design spec   spec/KeyTime.tla: Slot/Minute arithmetic; TLC evaluates Agree, StaleStamp, StaleKey over every phase of both
              grids (tc in 0..479, all skews) and CacheSlot over all histories of cache lookups with arbitrary (also
              non-monotonic) times and jitter; the AND-variant of the cache rule violates CacheSlot
spec -> code  every exported (tc, d) pair at the slot / minute boundaries and at the +-60 / +-120 / +-240 s thresholds, with and
              without a cache-warming dial a few seconds earlier: a real client in a bubble at tc emits its first datagram, a real
              server in a bubble at tc+d receives it (the process-wide key cache sees non-monotonic time across bubbles); histories
              of six first segments are answered by ONE server-side registry whose clock steps forwards and backwards between them
code -> spec  TLC validates every record (Trace_KeyTime): Agree / StaleStampRefused / StaleKeyRefused / ClientUsesOwnSlot on what
              the real endpoints did, and conformance of accept/reject with the arithmetic
"""
import json
import os
import random
import re
import shutil

import vlib
from vlib import Inconclusive

PROPS = ("ClientUsesOwnSlot", "Agree", "StaleStampRefused", "StaleKeyRefused")


def run(ctx):
    ctx.level = "model_checking"
    ctx.coverage["rule"] = ("pairs (client second, skew) at every boundary of the 120 s slot grid (shifted by 60 s) and of the minute grid "
                            "x thresholds; distinct_nontrivial = pairs in which client and server straddle a slot or minute boundary")
    ctx.assumptions += ["whole seconds; sub-second rounding of time.Round is exercised only at .000",
                        "two synctest bubbles stand in for two machines with different clocks; only bytes cross between them"]
    wd = vlib.scratch_dir("verif-c08-")
    try:
        res = vlib.tlc("MC_KeyTime", "MC_KeyTime", timeout=900, tags=("TABLE",))
        if res.violated or res.error or not res.prints:
            raise Inconclusive("KeyTime model: %s %s\n%s" % (res.violated, res.error, res.out[-1500:]))
        ctx.add_tlc(res, "KeyTime theorems (ASSUME) + CacheSlot over lookup histories")
        table = res.prints[0][1]
        bad = vlib.tlc("MC_KeyTime", "MC_KeyTime_and", timeout=900, tags=("TABLE",))
        ctx.coverage["model_detects_and_variant"] = bad.violated == "CacheSlot"
        if bad.violated != "CacheSlot":
            raise Inconclusive("sanity: the AND variant of the cache rule should violate CacheSlot")
        rnd = random.Random(ctx.seed)
        rows = []
        pick = table if ctx.thorough() else rnd.sample(table, 330)
        for p in pick:
            q = dict(p)
            q["warm"] = 0
            rows.append(q)
        # cache warming: a dial shortly before tc, on the other side of a slot change or in the same slot
        for p in (table if ctx.thorough() else rnd.sample(table, 120)):
            for w in ((2, 4, 20, 29) if ctx.thorough() else (rnd.choice([2, 4, 20, 29]),)):
                q = dict(p)
                q["warm"] = w
                rows.append(q)
        rows.sort(key=lambda r: (r["tc"], r["warm"]))
        pin, pout = os.path.join(wd, "pairs.ndjson"), os.path.join(wd, "real.ndjson")
        vlib.write_ndjson(pin, rows)
        rc, log, _ = vlib.go_test("./c08/", "TestClockPairs$", env={"VERIF_IN": pin, "VERIF_OUT": pout}, timeout=3000)
        if rc != 0 or not os.path.exists(pout):
            raise Inconclusive("driver TestClockPairs failed:\n" + log[-3000:])
        got = vlib.read_ndjson(pout)
        if len(got) != len(rows):
            raise Inconclusive("driver ran %d of %d pairs" % (len(got), len(rows)))
        ctx.coverage["evaluations"] += len(got)
        ctx.coverage["distinct_nontrivial"] += sum(1 for r in got if (r["tc"] + 60) // 120 != (r["tc"] + r["d"] + 60) // 120 or r["tc"] // 60 != (r["tc"] + r["d"]) // 60)
        ctx.sample({"kind": "handshake across two clocks", "record": got[len(got) // 2]})
        # one server-side registry (its per-user decryptor caches a slot's key triple) answers histories of first segments while the
        # server clock steps forwards and backwards across slot changes
        usable = [p for p in table if p["tc"] + p["d"] >= 0]
        hists = [[dict(rnd.choice(usable)) for _ in range(6)] for _h in range(40 if not ctx.thorough() else 600)]
        hin, hout = os.path.join(wd, "hist.ndjson"), os.path.join(wd, "hist_real.ndjson")
        vlib.write_ndjson(hin, hists)
        rc, log, _ = vlib.go_test("./c08/", "TestDecryptorHistory$", env={"VERIF_IN": hin, "VERIF_OUT": hout}, timeout=3000)
        if rc != 0 or not os.path.exists(hout):
            raise Inconclusive("driver TestDecryptorHistory failed:\n" + log[-3000:])
        hgot = vlib.read_ndjson(hout)
        if len(hgot) != 6 * len(hists):
            raise Inconclusive("history driver ran %d of %d steps" % (len(hgot), 6 * len(hists)))
        ctx.coverage["evaluations"] += len(hgot)
        ctx.coverage["decryptor_histories_with_a_backward_clock_step"] = sum(1 for h in hists if any(h[i + 1]["tc"] + h[i + 1]["d"] < h[i]["tc"] + h[i]["d"] for i in range(5)))
        vlib.write_ndjson(pout, got + hgot)
        for cfg, props, drift in (("Trace_KeyTime", PROPS, False), ("Trace_KeyTime_conf", ("Conforms",), True)):
            remaining = pout
            for attempt in range(6):
                r = vlib.tlc("Trace_KeyTime", cfg, workers=1, timeout=1500, env={"VERIF_TRACE": remaining}, keep_out=True)
                if r.violated in props:
                    m = re.findall(r"/\\ l = (\d+)", r.trace[-1] if r.trace else "")
                    line = int(m[-1]) - 1 if m else 1
                    cur = vlib.read_ndjson(remaining)
                    b = cur[line - 1]
                    if drift:
                        ctx.drift.append("accept/reject deviates from KeyTime.tla: %s" % b)
                        break
                    rp = ctx.save_replay("pair_%s_%d.json" % (r.violated, attempt), b)
                    ctx.report("%s: client at second %d%s, server clock %+d s: accepted=%s keyslot=%s stampdiff=%s"
                               % (r.violated, b["tc"], (" (cache warmed %d s earlier)" % b["warm"]) if b["warm"] else "", b["d"], b["real"], b["keyslot"], b["stampdiff"]),
                               rp, "C08:%s" % r.violated)
                    rest = cur[line:]
                    if not rest or len(ctx.violations) >= 3:
                        break
                    remaining = os.path.join(wd, "rest%d.ndjson" % attempt)
                    vlib.write_ndjson(remaining, rest)
                    continue
                if r.violated or r.error or not r.finished:
                    raise Inconclusive("Trace_KeyTime: %s %s\n%s" % (r.violated, r.error, r.out[-1500:]))
                if not drift:
                    ctx.coverage["states"] += r.distinct
                    ctx.coverage["traces_validated_against_impl"] += r.distinct - 1
                break
    finally:
        shutil.rmtree(wd, ignore_errors=True)


def replay(ctx, path):
    print(json.load(open(path)))
