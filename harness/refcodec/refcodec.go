// Package refcodec is an independent implementation of docs/protocol.md.
// It imports no mieru package; its numeric parameters (field offsets, type
// numbering, key derivation constants, limits) are loaded from wire.json,
// which TLC exports from spec/Wire.tla.
package refcodec

import (
	"bytes"
	"crypto/sha256"
	_ "embed"
	"encoding/binary"
	"encoding/json"
	"errors"
	"fmt"
	"math/bits"

	"golang.org/x/crypto/chacha20poly1305"
	"golang.org/x/crypto/pbkdf2"
)

//go:embed wire.json
var wireJSON []byte

type field struct {
	Name string `json:"name"`
	Off  int    `json:"off"`
	Len  int    `json:"len"`
}

type leMode struct {
	C    int `json:"c"`
	Ones int `json:"ones"`
}

// Wire is the protocol transcription exported by spec/Wire.tla.
type Wire struct {
	MetaLen           int            `json:"metaLen"`
	NonceLen          int            `json:"nonceLen"`
	TagLen            int            `json:"tagLen"`
	HintInLen         int            `json:"hintInLen"`
	HintOutLen        int            `json:"hintOutLen"`
	KeyIter           int            `json:"keyIter"`
	KeyLen            int            `json:"keyLen"`
	SlotSeconds       int64          `json:"slotSeconds"`
	StampSeconds      int64          `json:"stampSeconds"`
	MaxSessionPayload int            `json:"maxSessionPayload"`
	MaxStreamFragment int            `json:"maxStreamFragment"`
	MaxPadding        int            `json:"maxPadding"`
	ChunkLen          int            `json:"chunkLen"`
	Types             map[string]int `json:"types"`
	Session           []field        `json:"session"`
	Data              []field        `json:"data"`
	LowEntropy        []field        `json:"lowEntropy"`
	LEModes           []leMode       `json:"leModes"`
	StreamFragment    []int          `json:"streamFragment"`
}

// W is the loaded transcription.
var W Wire

func init() {
	if err := json.Unmarshal(wireJSON, &W); err != nil {
		panic(err)
	}
}

// Protocol types by name.
func T(name string) uint8 { return uint8(W.Types[name]) }

func IsSession(t uint8) bool { return t >= T("openSessionRequest") && t <= T("closeSessionResponse") }
func IsLowEntropy(t uint8) bool {
	return t == T("dataClientToServerLowEntropy") || t == T("dataServerToClientLowEntropy")
}
func IsData(t uint8) bool {
	return t == T("dataClientToServer") || t == T("dataServerToClient") || IsLowEntropy(t)
}
func IsAck(t uint8) bool { return t == T("ackClientToServer") || t == T("ackServerToClient") }

// HashedPassword = SHA-256(password || 0x00 || username).
func HashedPassword(user, pass string) []byte {
	h := sha256.New()
	h.Write([]byte(pass))
	h.Write([]byte{0})
	h.Write([]byte(user))
	return h.Sum(nil)
}

// SlotTime rounds unix seconds to the nearest multiple of SlotSeconds (half up).
func SlotTime(unix int64) int64 {
	s := W.SlotSeconds
	return ((unix + s/2) / s) * s
}

// KeyAt derives the key for the slot containing unix.
func KeyAt(hashed []byte, unix int64) []byte {
	var b [8]byte
	binary.BigEndian.PutUint64(b[:], uint64(SlotTime(unix)))
	salt := sha256.Sum256(b[:])
	return pbkdf2.Key(hashed, salt[:], W.KeyIter, W.KeyLen, sha256.New)
}

// Keys3 returns the keys of the previous, current and next slot.
func Keys3(hashed []byte, unix int64) [][]byte {
	return [][]byte{KeyAt(hashed, unix-W.SlotSeconds), KeyAt(hashed, unix), KeyAt(hashed, unix+W.SlotSeconds)}
}

// Hint computes the 4 hint bytes for a user name and nonce.
func Hint(user string, nonce []byte) []byte {
	h := sha256.New()
	h.Write([]byte(user))
	h.Write(nonce[:W.HintInLen])
	return h.Sum(nil)[:W.HintOutLen]
}

// ApplyHint overwrites the last HintOutLen nonce bytes.
func ApplyHint(user string, nonce []byte) {
	copy(nonce[len(nonce)-W.HintOutLen:], Hint(user, nonce))
}

// HintMatches reports whether the nonce carries user's hint.
func HintMatches(user string, nonce []byte) bool {
	return bytes.Equal(nonce[len(nonce)-W.HintOutLen:], Hint(user, nonce))
}

// Meta is a decoded 32-byte metadata block (all three layouts).
type Meta struct {
	Type      uint8
	Timestamp uint32
	SID       uint32
	Seq       uint32
	Status    uint8
	UnAck     uint32
	Win       uint16
	Frag      uint8
	Prefix    uint8
	PayLen    uint16
	Suffix    uint8
	LEMode    uint8
	LEMask    uint32
	LEExtract uint16
	LERot     uint8
}

func layoutOf(t uint8) []field {
	switch {
	case IsSession(t):
		return W.Session
	case IsLowEntropy(t):
		return W.LowEntropy
	default:
		return W.Data
	}
}

func getField(b []byte, f field) uint64 {
	var v uint64
	for i := 0; i < f.Len && i < 8; i++ {
		v = v<<8 | uint64(b[f.Off+i])
	}
	return v
}

func putField(b []byte, f field, v uint64) {
	for i := f.Len - 1; i >= 0; i-- {
		if f.Len-1-i < 8 {
			b[f.Off+i] = byte(v)
			v >>= 8
		}
	}
}

// ParseMeta decodes a metadata block. Unknown types are an error.
func ParseMeta(b []byte) (Meta, error) {
	var m Meta
	if len(b) != W.MetaLen {
		return m, fmt.Errorf("metadata length %d", len(b))
	}
	t := b[0]
	if !(IsSession(t) || IsData(t) || IsAck(t)) {
		return m, fmt.Errorf("unknown protocol type %d", t)
	}
	for _, f := range layoutOf(t) {
		v := getField(b, f)
		switch f.Name {
		case "type":
			m.Type = uint8(v)
		case "timestamp":
			m.Timestamp = uint32(v)
		case "sessionID":
			m.SID = uint32(v)
		case "seq":
			m.Seq = uint32(v)
		case "status":
			m.Status = uint8(v)
		case "unAckSeq":
			m.UnAck = uint32(v)
		case "windowSize":
			m.Win = uint16(v)
		case "fragment":
			m.Frag = uint8(v)
		case "prefixLen":
			m.Prefix = uint8(v)
		case "payloadLen":
			m.PayLen = uint16(v)
		case "suffixLen":
			m.Suffix = uint8(v)
		case "lowEntropyMode":
			m.LEMode = uint8(v)
		case "lowEntropyMask":
			m.LEMask = uint32(v)
		case "extractedPayloadLen":
			m.LEExtract = uint16(v)
		case "lowEntropyMaskRotation":
			m.LERot = uint8(v)
		}
	}
	return m, nil
}

// Marshal encodes the metadata block.
func (m Meta) Marshal() []byte {
	b := make([]byte, W.MetaLen)
	for _, f := range layoutOf(m.Type) {
		var v uint64
		switch f.Name {
		case "type":
			v = uint64(m.Type)
		case "timestamp":
			v = uint64(m.Timestamp)
		case "sessionID":
			v = uint64(m.SID)
		case "seq":
			v = uint64(m.Seq)
		case "status":
			v = uint64(m.Status)
		case "unAckSeq":
			v = uint64(m.UnAck)
		case "windowSize":
			v = uint64(m.Win)
		case "fragment":
			v = uint64(m.Frag)
		case "prefixLen":
			v = uint64(m.Prefix)
		case "payloadLen":
			v = uint64(m.PayLen)
		case "suffixLen":
			v = uint64(m.Suffix)
		case "lowEntropyMode":
			v = uint64(m.LEMode)
		case "lowEntropyMask":
			v = uint64(m.LEMask)
		case "extractedPayloadLen":
			v = uint64(m.LEExtract)
		case "lowEntropyMaskRotation":
			v = uint64(m.LERot)
		default:
			continue
		}
		putField(b, f, v)
	}
	return b
}

// ---- low entropy codec (bit by bit, no PDEP/PEXT instructions) ----------

func rotl64(x uint64, k int) uint64 { return bits.RotateLeft64(x, k) }

// ChunkMask returns the mask for chunk i per the rotation byte.
func ChunkMask(half uint32, rot uint8, i int) uint64 {
	m := uint64(half)<<32 | uint64(half)
	if rot == 0 || i == 0 {
		return m
	}
	if rot <= 15 {
		return rotl64(m, -((i * int(rot)) % 64))
	}
	return rotl64(m, (i*int(rot/16))%64)
}

// ValidRotation per the document.
func ValidRotation(r uint8) bool {
	return r == 0 || (r >= 1 && r <= 15) || (r >= 16 && r%16 == 0)
}

// LEEncodedLen = ceil(n/C)*8.
func LEEncodedLen(n int, mode uint8) int {
	c := W.LEModes[mode-1].C
	return (n + c - 1) / c * W.ChunkLen
}

// LEEncode encodes body with the given padding bit.
func LEEncode(body []byte, mode uint8, half uint32, rot uint8, padBit uint8) []byte {
	c := W.LEModes[mode-1].C
	out := make([]byte, LEEncodedLen(len(body), mode))
	for i, off := 0, 0; off < len(body); i, off = i+1, off+c {
		n := c
		if len(body)-off < n {
			n = len(body) - off
		}
		var src uint64
		for _, x := range body[off : off+n] {
			src = src<<8 | uint64(x)
		}
		mask := ChunkMask(half, rot, i)
		var chunk uint64
		used := 0
		for bit := 0; bit < 64; bit++ {
			if mask>>uint(bit)&1 == 1 && used < n*8 {
				chunk |= (src >> uint(used) & 1) << uint(bit)
				used++
			} else if padBit == 1 {
				chunk |= 1 << uint(bit)
			}
		}
		binary.BigEndian.PutUint64(out[i*8:], chunk)
	}
	return out
}

// LEDecode decodes enc into n body bytes, enforcing uniform padding.
func LEDecode(enc []byte, n int, mode uint8, half uint32, rot uint8) ([]byte, error) {
	if mode < 1 || int(mode) > len(W.LEModes) {
		return nil, errors.New("invalid mode")
	}
	if bits.OnesCount32(half) != W.LEModes[mode-1].Ones {
		return nil, errors.New("wrong mask weight")
	}
	if !ValidRotation(rot) {
		return nil, errors.New("invalid rotation")
	}
	if n <= 0 || len(enc) != LEEncodedLen(n, mode) {
		return nil, errors.New("inconsistent lengths")
	}
	c := W.LEModes[mode-1].C
	body := make([]byte, 0, n)
	pad := -1
	for i, off := 0, 0; off < n; i, off = i+1, off+c {
		k := c
		if n-off < k {
			k = n - off
		}
		chunk := binary.BigEndian.Uint64(enc[i*8:])
		mask := ChunkMask(half, rot, i)
		var src uint64
		used := 0
		for bit := 0; bit < 64; bit++ {
			v := int(chunk >> uint(bit) & 1)
			if mask>>uint(bit)&1 == 1 && used < k*8 {
				src |= uint64(v) << uint(used)
				used++
			} else {
				if pad < 0 {
					if i != 0 {
						return nil, errors.New("no padding position in chunk 0")
					}
					pad = v
				} else if v != pad {
					return nil, errors.New("mixed padding")
				}
			}
		}
		for j := k - 1; j >= 0; j-- {
			body = append(body, byte(src>>uint(8*j)))
		}
	}
	return body, nil
}

// ---- segments -------------------------------------------------------------

// Segment is one decoded wire segment with the byte ranges of its regions.
type Segment struct {
	Meta    Meta
	Nonce   []byte // nonce used for the metadata
	Payload []byte // decrypted application payload
	WireLen int
	// region boundaries relative to the start of the segment on the wire
	NonceEnd, MetaEnd, MetaTagEnd, Pad1End, BodyEnd, BodyTagEnd, Pad2End int
	KeyIndex                                                             int // which of the candidate keys opened it
}

// Digest is a short digest of the payload (for retransmission comparison).
func (s *Segment) Digest() int64 {
	h := sha256.Sum256(s.Payload)
	return int64(binary.BigEndian.Uint32(h[:4]) & 0x7fffffff)
}

func open(key, nonce, ct []byte) ([]byte, error) {
	a, err := chacha20poly1305.NewX(key)
	if err != nil {
		return nil, err
	}
	return a.Open(nil, nonce, ct, nil)
}

func seal(key, nonce, pt []byte) []byte {
	a, err := chacha20poly1305.NewX(key)
	if err != nil {
		panic(err)
	}
	return a.Seal(nil, nonce, pt, nil)
}

// DecodeDatagram decodes one UDP datagram trying each candidate key.
func DecodeDatagram(keys [][]byte, b []byte) (*Segment, error) {
	head := W.NonceLen + W.MetaLen + W.TagLen
	if len(b) < head {
		return nil, fmt.Errorf("datagram of %d bytes is shorter than a header", len(b))
	}
	nonce := b[:W.NonceLen]
	for ki, key := range keys {
		pt, err := open(key, nonce, b[W.NonceLen:head])
		if err != nil {
			continue
		}
		m, err := ParseMeta(pt)
		if err != nil {
			return nil, err
		}
		s := &Segment{Meta: m, Nonce: append([]byte(nil), nonce...), WireLen: len(b), KeyIndex: ki,
			NonceEnd: W.NonceLen, MetaEnd: W.NonceLen + W.MetaLen, MetaTagEnd: head}
		rest := b[head:]
		pre := 0
		if !IsSession(m.Type) {
			pre = int(m.Prefix)
		}
		if pre > len(rest) {
			return nil, errors.New("prefix padding exceeds datagram")
		}
		s.Pad1End = head + pre
		rest = rest[pre:]
		if m.PayLen > 0 {
			need := int(m.PayLen) + W.TagLen
			if len(rest) < need {
				return nil, errors.New("payload exceeds datagram")
			}
			body := rest[:need]
			if IsLowEntropy(m.Type) {
				dec, err := LEDecode(body[:m.PayLen], int(m.LEExtract), m.LEMode, m.LEMask, m.LERot)
				if err != nil {
					return nil, fmt.Errorf("low entropy: %w", err)
				}
				body = append(dec, body[m.PayLen:]...)
			}
			p, err := open(key, nonce, body)
			if err != nil {
				return nil, errors.New("payload authentication failed")
			}
			s.Payload = p
			s.BodyEnd = s.Pad1End + int(m.PayLen)
			s.BodyTagEnd = s.BodyEnd + W.TagLen
			rest = rest[need:]
		} else {
			s.BodyEnd, s.BodyTagEnd = s.Pad1End, s.Pad1End
		}
		if len(rest) != int(m.Suffix) {
			return nil, fmt.Errorf("suffix padding %d does not match remaining %d", m.Suffix, len(rest))
		}
		s.Pad2End = len(b)
		return s, nil
	}
	return nil, errors.New("no key authenticates the metadata")
}

// EncodeDatagram builds a UDP datagram. pad1/pad2 are literal padding bytes.
func EncodeDatagram(key []byte, user string, nonce []byte, m Meta, payload, pad1, pad2 []byte, lePadBit uint8) []byte {
	n := append([]byte(nil), nonce...)
	if user != "" {
		ApplyHint(user, n)
	}
	if IsSession(m.Type) {
		pad1 = nil
	} else {
		m.Prefix = uint8(len(pad1))
	}
	m.Suffix = uint8(len(pad2))
	var body []byte
	if len(payload) > 0 {
		ct := seal(key, n, payload)
		if IsLowEntropy(m.Type) {
			m.LEExtract = uint16(len(payload))
			enc := LEEncode(ct[:len(payload)], m.LEMode, m.LEMask, m.LERot, lePadBit)
			m.PayLen = uint16(len(enc))
			body = append(enc, ct[len(payload):]...)
		} else {
			m.PayLen = uint16(len(payload))
			body = ct
		}
	} else {
		m.PayLen = 0
	}
	out := append([]byte(nil), n...)
	out = append(out, seal(key, n, m.Marshal())...)
	out = append(out, pad1...)
	out = append(out, body...)
	out = append(out, pad2...)
	return out
}

func incNonce(n []byte) {
	for i := len(n) - 1; i >= 0; i-- {
		n[i]++
		if n[i] != 0 {
			return
		}
	}
}

// StreamDecoder follows one direction of a TCP connection.
type StreamDecoder struct {
	Keys     [][]byte // candidates until the first segment opens
	key      []byte
	nonce    []byte
	buf      []byte
	started  bool
	Offset   int // stream offset of buf[0]
	Err      error
	KeyIndex int
}

// Feed appends stream bytes and returns every complete segment decoded.
func (d *StreamDecoder) Feed(b []byte) []*Segment {
	d.buf = append(d.buf, b...)
	var out []*Segment
	for d.Err == nil {
		s, n := d.next()
		if s == nil {
			break
		}
		out = append(out, s)
		d.buf = d.buf[n:]
		d.Offset += n
	}
	return out
}

// Residue is the number of undecoded buffered bytes.
func (d *StreamDecoder) Residue() int { return len(d.buf) }

func (d *StreamDecoder) next() (*Segment, int) {
	head := W.MetaLen + W.TagLen
	pos := 0
	s := &Segment{}
	var nonce []byte
	if !d.started {
		if len(d.buf) < W.NonceLen+head {
			return nil, 0
		}
		nonce = append([]byte(nil), d.buf[:W.NonceLen]...)
		pos = W.NonceLen
		var pt []byte
		for ki, k := range d.Keys {
			p, err := open(k, nonce, d.buf[pos:pos+head])
			if err == nil {
				d.key, pt, d.KeyIndex = k, p, ki
				break
			}
		}
		if d.key == nil {
			d.Err = errors.New("no key authenticates the first metadata")
			return nil, 0
		}
		m, err := ParseMeta(pt)
		if err != nil {
			d.Err = err
			return nil, 0
		}
		s.Meta = m
	} else {
		if len(d.buf) < head {
			return nil, 0
		}
		nonce = append([]byte(nil), d.nonce...)
		incNonce(nonce)
		pt, err := open(d.key, nonce, d.buf[:head])
		if err != nil {
			d.Err = fmt.Errorf("metadata authentication failed at stream offset %d", d.Offset)
			return nil, 0
		}
		m, err := ParseMeta(pt)
		if err != nil {
			d.Err = err
			return nil, 0
		}
		s.Meta = m
	}
	m := s.Meta
	s.Nonce = append([]byte(nil), nonce...)
	s.NonceEnd = pos
	s.MetaEnd = pos + W.MetaLen
	s.MetaTagEnd = pos + head
	pos += head
	pre := 0
	if !IsSession(m.Type) {
		pre = int(m.Prefix)
	}
	total := pos + pre + int(m.Suffix)
	if m.PayLen > 0 {
		total += int(m.PayLen) + W.TagLen
	}
	if len(d.buf) < total {
		return nil, 0
	}
	pos += pre
	s.Pad1End = pos
	cur := append([]byte(nil), nonce...)
	if m.PayLen > 0 {
		body := d.buf[pos : pos+int(m.PayLen)+W.TagLen]
		if IsLowEntropy(m.Type) {
			dec, err := LEDecode(body[:m.PayLen], int(m.LEExtract), m.LEMode, m.LEMask, m.LERot)
			if err != nil {
				d.Err = fmt.Errorf("low entropy: %w", err)
				return nil, 0
			}
			body = append(dec, body[m.PayLen:]...)
		}
		incNonce(cur)
		p, err := open(d.key, cur, body)
		if err != nil {
			d.Err = fmt.Errorf("payload authentication failed at stream offset %d", d.Offset)
			return nil, 0
		}
		s.Payload = p
		pos += int(m.PayLen)
		s.BodyEnd = pos
		pos += W.TagLen
		s.BodyTagEnd = pos
	} else {
		s.BodyEnd, s.BodyTagEnd = pos, pos
	}
	pos += int(m.Suffix)
	s.Pad2End = pos
	s.WireLen = pos
	d.nonce = cur
	d.started = true
	return s, pos
}

// StreamEncoder produces one direction of a TCP connection.
type StreamEncoder struct {
	Key     []byte
	User    string
	nonce   []byte
	started bool
}

// Encode returns the wire bytes of one segment. firstNonce is used only for the first segment.
func (e *StreamEncoder) Encode(firstNonce []byte, m Meta, payload, pad1, pad2 []byte, lePadBit uint8) []byte {
	var out []byte
	if !e.started {
		e.nonce = append([]byte(nil), firstNonce...)
		if e.User != "" {
			ApplyHint(e.User, e.nonce)
		}
		out = append(out, e.nonce...)
		e.started = true
	} else {
		incNonce(e.nonce)
	}
	if IsSession(m.Type) {
		pad1 = nil
	} else {
		m.Prefix = uint8(len(pad1))
	}
	m.Suffix = uint8(len(pad2))
	metaNonce := append([]byte(nil), e.nonce...)
	var body []byte
	if len(payload) > 0 {
		incNonce(e.nonce)
		ct := seal(e.Key, e.nonce, payload)
		if IsLowEntropy(m.Type) {
			m.LEExtract = uint16(len(payload))
			enc := LEEncode(ct[:len(payload)], m.LEMode, m.LEMask, m.LERot, lePadBit)
			m.PayLen = uint16(len(enc))
			body = append(enc, ct[len(payload):]...)
		} else {
			m.PayLen = uint16(len(payload))
			body = ct
		}
	} else {
		m.PayLen = 0
	}
	out = append(out, seal(e.Key, metaNonce, m.Marshal())...)
	out = append(out, pad1...)
	out = append(out, body...)
	out = append(out, pad2...)
	return out
}

// SealMeta returns nonce || sealed metadata (the first 72 bytes of a segment) under key with the given literal nonce.
func SealMeta(key, nonce []byte, m Meta) []byte {
	out := append([]byte(nil), nonce...)
	return append(out, seal(key, nonce, m.Marshal())...)
}

// ---- raw construction (for hostile-but-authenticated units) ------------------------------------------------------------------

// Parts is a valid segment taken apart, so that a caller can lie in the metadata or damage the tail before assembling it.
type Parts struct {
	Nonce     []byte // nonce that seals the metadata
	Meta      Meta   // consistent with Pad1/Body/Pad2
	Pad1      []byte
	Body      []byte // sealed (and possibly low-entropy encoded) payload, empty if none
	Pad2      []byte
	WithNonce bool // the nonce is written in front (UDP always; TCP first segment only)
}

// Bytes assembles the unit; rawMeta (32 bytes), if not nil, replaces the marshalled metadata.
func (p Parts) Bytes(key, rawMeta []byte) []byte {
	if rawMeta == nil {
		rawMeta = p.Meta.Marshal()
	}
	var out []byte
	if p.WithNonce {
		out = append(out, p.Nonce...)
	}
	out = append(out, seal(key, p.Nonce, rawMeta)...)
	out = append(out, p.Pad1...)
	out = append(out, p.Body...)
	out = append(out, p.Pad2...)
	return out
}

// DatagramParts is EncodeDatagram, taken apart.
func DatagramParts(key []byte, user string, nonce []byte, m Meta, payload, pad1, pad2 []byte, lePadBit uint8) Parts {
	n := append([]byte(nil), nonce...)
	if user != "" {
		ApplyHint(user, n)
	}
	if IsSession(m.Type) {
		pad1 = nil
	} else {
		m.Prefix = uint8(len(pad1))
	}
	m.Suffix = uint8(len(pad2))
	var body []byte
	if len(payload) > 0 {
		ct := seal(key, n, payload)
		if IsLowEntropy(m.Type) {
			m.LEExtract = uint16(len(payload))
			enc := LEEncode(ct[:len(payload)], m.LEMode, m.LEMask, m.LERot, lePadBit)
			m.PayLen = uint16(len(enc))
			body = append(enc, ct[len(payload):]...)
		} else {
			m.PayLen = uint16(len(payload))
			body = ct
		}
	} else {
		m.PayLen = 0
	}
	return Parts{Nonce: n, Meta: m, Pad1: pad1, Body: body, Pad2: pad2, WithNonce: true}
}

// Parts is Encode, taken apart (the encoder's nonce counter advances exactly as for Encode).
func (e *StreamEncoder) Parts(firstNonce []byte, m Meta, payload, pad1, pad2 []byte, lePadBit uint8) Parts {
	p := Parts{}
	if !e.started {
		e.nonce = append([]byte(nil), firstNonce...)
		if e.User != "" {
			ApplyHint(e.User, e.nonce)
		}
		p.WithNonce = true
		e.started = true
	} else {
		incNonce(e.nonce)
	}
	if IsSession(m.Type) {
		pad1 = nil
	} else {
		m.Prefix = uint8(len(pad1))
	}
	m.Suffix = uint8(len(pad2))
	p.Nonce = append([]byte(nil), e.nonce...)
	if len(payload) > 0 {
		incNonce(e.nonce)
		ct := seal(e.Key, e.nonce, payload)
		if IsLowEntropy(m.Type) {
			m.LEExtract = uint16(len(payload))
			enc := LEEncode(ct[:len(payload)], m.LEMode, m.LEMask, m.LERot, lePadBit)
			m.PayLen = uint16(len(enc))
			p.Body = append(enc, ct[len(payload):]...)
		} else {
			m.PayLen = uint16(len(payload))
			p.Body = ct
		}
	} else {
		m.PayLen = 0
	}
	p.Meta, p.Pad1, p.Pad2 = m, pad1, pad2
	return p
}
