---------------------------- MODULE ServerIngress ----------------------------
(***************************************************************************)
(* What a server endpoint does with each unit arriving from the network    *)
(* (UDP: one datagram; TCP: the first segment of a new connection, the     *)
(* rest of the connection's bytes following it), as far as an observer     *)
(* outside can tell: does it answer, does it create a session, does the    *)
(* proxy application see anything.                                         *)
(*   pkg/protocol/underlay_packet.go readOneSegment / RunEventLoop         *)
(*   pkg/protocol/underlay_stream.go readOneSegment / RunEventLoop         *)
(* A unit is described by what decides the server's branches:              *)
(*   src   source address (UDP) / connection (TCP)                         *)
(*   nid   identity of the first 16 bytes of its encrypted metadata        *)
(*   hdr   "short": fewer bytes than nonce+metadata+tag;  "full"           *)
(*   cred  "reg": the metadata opens under a registered user's key of a    *)
(*         valid slot; "foreign": well formed under an unregistered        *)
(*         credential; "none": opens under no key at all                   *)
(*   ts    metadata timestamp within +-1 minute or "stale"                 *)
(*   body  "ok" | "trunc" (bytes missing / length disagrees) | "bad"       *)
(*         (payload does not authenticate)                                 *)
(*   kind  "open" | "data" | "close", sid session id (0 is reserved)       *)
(* The adversary holds no credential: it can forge units with cred # reg,  *)
(* re-send exact copies of units the server has processed from another     *)
(* source, and damage copies of genuine units (any time after emission).   *)
(***************************************************************************)
EXTENDS Integers, Sequences, FiniteSets, TLC

CONSTANTS G,              \* the genuine clients' addresses (a set)
          Adv,            \* addresses of the party without a credential
          Sids,           \* session ids (0 is reserved)
          Nids,           \* identities of 16-byte metadata prefixes
          Transport,      \* "udp" | "tcp"
          RecordAll,      \* TRUE = the code: every datagram's metadata is recorded in the replay cache before decryption
          ExactLength     \* TRUE = the code: a datagram whose length disagrees with its authenticated lengths is dropped

Src == G \cup Adv
NoSrc == "-"

Unit(src, nid, hdr, cred, ts, body, kind, sid) ==
  [src |-> src, nid |-> nid, hdr |-> hdr, cred |-> cred, ts |-> ts, body |-> body, kind |-> kind, sid |-> sid]

VARIABLES seen,      \* nid -> tag under which the replay cache first recorded it ("-" = not recorded)
          sess,      \* sid -> source that owns the session (NoSrc = none)
          out,       \* src -> number of units the server sent towards src
          accepts,   \* sessions handed to the proxy application
          toApp,     \* payload units handed to the application
          emitted,   \* genuine units put on the network so far (a set: the adversary may copy them)
          processed, \* genuine units the server has processed
          taken,     \* ... and did not drop
          script,    \* what the genuine client still has to send
          dead,      \* TCP: connections the server has given up on
          lastAdv    \* did the last step process an adversary unit (for the action property)
vars == <<seen, sess, out, accepts, toApp, emitted, processed, taken, script, dead, lastAdv>>

NidsForged == {8, 9}
TheClient == CHOOSE g \in G : TRUE

Init ==
  /\ seen = [n \in Nids |-> NoSrc]
  /\ sess = [s \in Sids |-> NoSrc]
  /\ out = [s \in Src |-> 0]
  /\ accepts = 0 /\ toApp = 0
  /\ emitted = {} /\ processed = {} /\ taken = {}
  /\ script = <<Unit(TheClient, 1, "full", "reg", "ok", "ok", "open", 1),
                Unit(TheClient, 2, "full", "reg", "ok", "ok", "data", 1),
                Unit(TheClient, 3, "full", "reg", "ok", "ok", "close", 1)>>
  /\ dead = {}
  /\ lastAdv = FALSE

Tag(u) == IF Transport = "udp" THEN u.src ELSE "any"      \* TCP uses one empty tag for everybody

\* The server's reaction to unit u: a record of the changes.
\* UDP ------------------------------------------------------------------------------------------------------------------
ExistingSession(u) == u.cred = "reg" /\ \E s \in Sids : sess[s] = u.src     \* the session's own cipher opens it (same address only)
UdpDup(u) == seen[u.nid] # NoSrc /\ seen[u.nid] # Tag(u)
UdpRecorded(u) == RecordAll \/ ~ExistingSession(u)
UdpDrop(u) == u.hdr = "short" \/ u.cred # "reg" \/ (UdpRecorded(u) /\ UdpDup(u)) \/ u.ts = "stale" \/ u.body = "bad"
              \/ (u.body = "trunc" /\ (ExactLength \/ u.kind # "open"))
UdpStep(u) ==
  LET dup == UdpRecorded(u) /\ UdpDup(u)
      seen1 == IF u.hdr = "full" /\ UdpRecorded(u) /\ seen[u.nid] = NoSrc THEN [seen EXCEPT ![u.nid] = Tag(u)] ELSE seen
      drop == UdpDrop(u)
  IN
  /\ seen' = seen1
  /\ IF drop THEN UNCHANGED <<sess, out, accepts, toApp>>
     ELSE CASE u.kind = "open" ->
                 IF u.sid = 0 \/ sess[u.sid] # NoSrc THEN UNCHANGED <<sess, out, accepts, toApp>>
                 ELSE /\ sess' = [sess EXCEPT ![u.sid] = u.src]
                      /\ accepts' = accepts + 1 /\ toApp' = toApp + 1
                      /\ out' = [out EXCEPT ![u.src] = @ + 1]
            [] u.kind = "data" ->
                 IF sess[u.sid] = NoSrc
                 THEN /\ out' = [out EXCEPT ![u.src] = @ + 1]        \* closeSessionRequest towards whoever sent it
                      /\ UNCHANGED <<sess, accepts, toApp>>
                 ELSE /\ toApp' = toApp + 1                           \* delivered to the session with that id
                      /\ out' = [out EXCEPT ![sess[u.sid]] = @ + 1]   \* acknowledged towards the session's address
                      /\ UNCHANGED <<sess, accepts>>
            [] u.kind = "ack" ->
                 IF sess[u.sid] = NoSrc
                 THEN /\ out' = [out EXCEPT ![u.src] = @ + 1]
                      /\ UNCHANGED <<sess, accepts, toApp>>
                 ELSE UNCHANGED <<sess, out, accepts, toApp>>
            [] u.kind = "close" ->
                 IF sess[u.sid] = NoSrc THEN UNCHANGED <<sess, out, accepts, toApp>>
                 ELSE /\ sess' = [sess EXCEPT ![u.sid] = NoSrc]
                      /\ out' = [out EXCEPT ![sess[u.sid]] = @ + 1]
                      /\ UNCHANGED <<accepts, toApp>>
  /\ UNCHANGED dead

\* TCP: u is the first segment of connection u.src (later segments of an authenticated connection are its own business) ---
TcpReject(u) == u.hdr = "short" \/ u.cred # "reg" \/ seen[u.nid] # NoSrc \/ u.ts = "stale" \/ u.body # "ok" \/ u.kind # "open" \/ u.sid = 0
TcpStep(u) ==
  LET dup == seen[u.nid] # NoSrc
      seen1 == IF u.hdr = "full" /\ seen[u.nid] = NoSrc THEN [seen EXCEPT ![u.nid] = "any"] ELSE seen
      reject == TcpReject(u)
  IN
  /\ u.src \notin dead
  /\ seen' = seen1
  /\ IF reject THEN /\ dead' = dead \cup {u.src} /\ UNCHANGED <<sess, out, accepts, toApp>>
     ELSE /\ sess' = [sess EXCEPT ![u.sid] = u.src]
          /\ accepts' = accepts + 1 /\ toApp' = toApp + 1
          /\ out' = [out EXCEPT ![u.src] = @ + 1]
          /\ dead' = dead \cup {u.src}      \* one first segment per connection in this model

Step(u) == IF Transport = "udp" THEN UdpStep(u) ELSE TcpStep(u)
Taken(u) == IF Transport = "udp" THEN ~UdpDrop(u) ELSE ~TcpReject(u)

\* the genuine client emits its next unit; the network delivers it now or later
ClientEmit ==
  /\ script # <<>>
  /\ emitted' = emitted \cup {Head(script)}
  /\ script' = Tail(script)
  /\ lastAdv' = FALSE
  /\ UNCHANGED <<seen, sess, out, accepts, toApp, processed, taken, dead>>
Deliver(u) ==
  /\ u \in emitted \ processed
  /\ (Transport = "tcp" => u.kind = "open")     \* later segments of the genuine connection do not start connections
  /\ Step(u)
  /\ processed' = processed \cup {u}
  /\ taken' = IF Taken(u) THEN taken \cup {u} ELSE taken
  /\ lastAdv' = FALSE
  /\ UNCHANGED <<emitted, script>>

\* adversary units ---------------------------------------------------------------------------------------------------------
Forged == { Unit(a, n, h, c, t, b, k, s) : a \in Adv, n \in NidsForged, h \in {"short", "full"}, c \in {"foreign", "none"},
            t \in {"ok"}, b \in {"ok"}, k \in {"open", "data"}, s \in {1} }
Replays == { [u EXCEPT !.src = a] : u \in taken, a \in Adv }     \* copies of traffic the server ACCEPTED
Damaged == UNION { { [u EXCEPT !.src = a, !.hdr = "short"], [u EXCEPT !.src = a, !.cred = "none"],
                     [u EXCEPT !.src = a, !.body = "trunc"], [u EXCEPT !.src = a, !.body = "bad"] } : u \in emitted, a \in Adv }
AdvUnits == Forged \cup Replays \cup Damaged
Probe(u) ==
  /\ u \in AdvUnits
  /\ Step(u)
  /\ lastAdv' = TRUE
  /\ UNCHANGED <<emitted, processed, taken, script>>

Next == ClientEmit \/ (\E u \in emitted : Deliver(u)) \/ (\E u \in AdvUnits : Probe(u))
Spec == Init /\ [][Next]_vars

\* C05 / C06 ---------------------------------------------------------------------------------------------------------------
Silent == \A a \in Adv : out[a] = 0
NoAdvSession == \A s \in Sids : sess[s] \notin Adv
OnlyGenuineAccepted == accepts <= Cardinality({u \in taken : u.kind = "open"})
\* an adversary unit changes nothing the genuine client or the application can observe
AdvInert == [][lastAdv' => (sess' = sess /\ out' = out /\ accepts' = accepts /\ toApp' = toApp)]_vars
=============================================================================
