------------------------------- MODULE KeyTime -------------------------------
(***************************************************************************)
(* Time-derived keys and segment timestamps (pkg/cipher/keygen.go,         *)
(* cache.go, pkg/protocol/metadata.go), in integer seconds:                *)
(*   Slot(t)   = the 120 s key slot t is rounded to (half up)              *)
(*   Minute(t) = the minute stamp                                          *)
(* A receiver at tr opens a segment made at tc iff the sender's slot is    *)
(* one of its three candidate slots and the stamps differ by at most one.  *)
(* The process-wide key cache is modelled with its (epoch, createTime)     *)
(* validity rule and arbitrary lookup times.                               *)
(***************************************************************************)
EXTENDS Integers, FiniteSets, Sequences, TLC, Json

Slot(t) == (t + 60) \div 120
Minute(t) == t \div 60
Abs(x) == IF x < 0 THEN -x ELSE x

KeyOK(tc, tr) == Slot(tc) \in {Slot(tr) - 1, Slot(tr), Slot(tr) + 1}
StampOK(tc, tr) == Abs(Minute(tc) - Minute(tr)) <= 1
Accept(tc, tr) == KeyOK(tc, tr) /\ StampOK(tc, tr)

T == 0..479                 \* two full slot periods and eight minutes: every phase of both grids
\* C08
Agree == \A tc \in T, d \in -60..60 : tc + d >= 0 => Accept(tc, tc + d)
StaleStamp == \A tc \in T, tr \in T : Abs(Minute(tc) - Minute(tr)) >= 2 => ~Accept(tc, tr)
StaleKey == \A tc \in T, d \in (-400..-240) \cup (240..400) : tc + d >= 0 => ~KeyOK(tc, tc + d)

\* key cache: an entry is reused only for lookups in ITS slot and while young (validity 30 s minus a jitter of up to 5 s)
CONSTANT CacheChecksEpoch    \* TRUE = the code (epoch mismatch OR too old => regenerate); FALSE = the AND variant
Entry(epoch, created) == [has |-> TRUE, epoch |-> epoch, created |-> created]
NoEntry == [has |-> FALSE, epoch |-> 0, created |-> 0]
Expired(e, now, jitter) ==
  IF CacheChecksEpoch THEN e.epoch # Slot(now) \/ e.created + (30 - jitter) < now
  ELSE e.epoch # Slot(now) /\ e.created + (30 - jitter) < now
Lookup(e, now, jitter) == IF ~e.has \/ Expired(e, now, jitter) THEN Entry(Slot(now), now) ELSE e

Times == {0, 29, 30, 31, 55, 59, 60, 61, 65, 89, 119, 179, 180, 181, 240}
Jitters == {0, 4}
VARIABLES entry, used
Init == entry = NoEntry /\ used = [slot |-> 0, now |-> 0]
Next == \E now \in Times, j \in Jitters :
          /\ entry' = Lookup(entry, now, j)
          /\ used' = [slot |-> Lookup(entry, now, j).epoch, now |-> now]
\* cached key material is never used for a time slot other than the one it was derived for
CacheSlot == used.slot = Slot(used.now)

Pairs == { <<tc, d>> : tc \in {t \in 0..420 : (t % 60) \in {0, 1, 2, 58, 59} \/ (t % 120) \in {60, 61, 62}},
                       d \in {-301, -241, -240, -239, -181, -180, -179, -121, -120, -119, -62, -61, -60, -59, -58, -2, -1, 0, 1, 2,
                              58, 59, 60, 61, 62, 119, 120, 121, 179, 180, 181, 239, 240, 241, 301} }
Table == { [tc |-> p[1], d |-> p[2], key |-> KeyOK(p[1], p[1] + p[2]), stamp |-> StampOK(p[1], p[1] + p[2]),
            accept |-> Accept(p[1], p[1] + p[2])] : p \in {q \in Pairs : q[1] + q[2] >= 0} }
=============================================================================
