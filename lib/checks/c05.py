"""C05 - a party without a credential gets silence: no session, nothing for the application, not one byte in reply.

design spec   spec/ServerIngress.tla: the server's branch structure for a unit from the network (UDP datagram / first segment of a TCP
              connection) over the attributes that decide it; the adversary forges units without a registered credential, damages
              copies of genuine units and re-sends accepted ones from elsewhere; TLC checks Silent, NoAdvSession,
              OnlyGenuineAccepted and the action property AdvInert for every interleaving with a genuine session.  Two
              variants (length check relaxed / replay cache consulted for new sessions only) violate them
spec -> code  every adversary class of the specification is concretised against a real server mux on the simulated network:
              random bytes at the header boundaries, every prefix and every single-bit mutation of freshly built genuine first
              segments (each from its own never-delivered template so that only the damage can reject it), datagrams longer than
              their authenticated lengths, well-formed handshakes under a wrong password / unknown user / hint naming a real user;
              both transports, between the exchanges of a genuine session
code -> spec  the event stream recorded from the network (units in, units out, Accept, application bytes, genuine echo checks) is
              validated by TLC (Trace_ServerIngress): SilentL, NothingForApplicationL, OnlyGenuineAcceptedL, GenuineUnaffectedL on
              the logged events; the specification fed the same units must agree (conformance, reported as drift)
Reload to an empty user list (credentials that are no longer registered) is decided at the registry by C07's reload rows and
repeated here through the mux.
"""
import json
import shutil

import ingress
import vlib
from vlib import Inconclusive


def mine(cause):
    return not cause["cls"].startswith("replay")


def run(ctx):
    ctx.level = "model_checking"
    ctx.coverage["rule"] = ("adversary units per transport: 3 random strings per length class, every prefix (quick: every 3rd plus all "
                            "cuts inside the padding and at region boundaries) and single-bit mutation (quick: every 7th bit) of the "
                            "authenticated part of fresh genuine first segments, foreign-credential handshakes; distinct_nontrivial = "
                            "distinct (transport, unit class) pairs that pass at least the header-length test")
    ctx.assumptions += ["virtual time (testing/synctest); observation window 200 s per TCP connection",
                        "the adversary's copies of genuine first segments are of segments the server never received intact"]
    wd = vlib.scratch_dir("verif-c05-")
    try:
        ingress.model(ctx)
        seeds = [ctx.seed] if not ctx.thorough() else [ctx.seed, ctx.seed + 1]
        for k, sd in enumerate(seeds):
            events = ingress.run_world(ctx, wd, sd, name="c05_%d" % k)
            adv = [e for e in events if e["ev"] == "In" and e["adv"] and mine(e)]
            ctx.coverage["evaluations"] += len(adv)
            ctx.coverage["distinct_nontrivial"] += len({(e["tr"], e["cls"]) for e in adv if e["hdr"] == "full"})
            if k == 0:
                ctx.sample({"kind": "adversary unit as logged", "event": next(e for e in adv if e["cls"].startswith("prefix") and e["hdr"] == "full")})
                ctx.sample({"kind": "adversary unit as logged", "event": next(e for e in adv if e["cls"].startswith("bitflip") and e["body"] == "bad")})
            ingress.check(ctx, wd, events, mine, "C05", "c05_%d" % k)
        reload_through_mux(ctx, wd)
    finally:
        shutil.rmtree(wd, ignore_errors=True)


def reload_through_mux(ctx, wd):
    import os
    out = os.path.join(wd, "reload.ndjson")
    rc, log, _ = vlib.go_test("./ingress/", "TestReloadSilence$", env={"VERIF_OUT": out, "VERIF_SEED": str(ctx.seed)}, timeout=900)
    if rc != 0 or not os.path.exists(out):
        raise Inconclusive("TestReloadSilence failed:\n" + log[-3000:])
    events = vlib.read_ndjson(out)
    ctx.coverage["evaluations"] += sum(1 for e in events if e["ev"] == "In" and e["adv"])
    ingress.check(ctx, wd, events, lambda c: True, "C05", "reload")


def replay(ctx, path):
    print(json.load(open(path)))
    run(ctx)
