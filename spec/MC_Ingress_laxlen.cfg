CONSTANTS
  G = {"g"}
  Adv = {"x", "y"}
  Sids = {0, 1}
  Nids = {1, 2, 3, 8, 9}
  Transport = "udp"
  RecordAll = TRUE
  ExactLength = FALSE
SPECIFICATION Spec
INVARIANTS Silent NoAdvSession OnlyGenuineAccepted
PROPERTIES AdvInert
CHECK_DEADLOCK FALSE
