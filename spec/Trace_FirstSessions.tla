------------------------- MODULE Trace_FirstSessions -------------------------
(* C19, registration race: for a user whose first sessions arrive concurrently, the bytes handed to the proxy application are the  *)
(* bytes the user's upload counter reports (Counter.tla's Conserved, on a counter that is created while it is first being used).   *)
EXTENDS Integers, Sequences, TLC, Json, IOUtils
VARIABLES l, x
Trace == ndJsonDeserialize(IOEnv.VERIF_TRACE)
Init == l = 1 /\ x = 0
Next == l <= Len(Trace) /\ l' = l + 1 /\ UNCHANGED x
Spec == Init /\ [][Next]_<<l, x>>
R == Trace[l - 1]
FirstSessionsCounted == l > 1 => R.counted = R.delivered
TraceAccepted == TLCGet("stats").diameter - 1 = Len(Trace)
=============================================================================
