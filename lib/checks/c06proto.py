"""C06, protocol half: exact copies of accepted traffic, re-presented from elsewhere, draw nothing.

Shares the driver and the specification of C05 (spec/ServerIngress.tla, harness/ingress): the genuine clients' client-to-server
traffic is recorded from the simulated network (every UDP datagram; the TCP byte stream with its segment boundaries recovered by the
reference decoder) and re-sent from fresh addresses / on new connections - single datagrams, the first k segments, the whole stream -
while the original session is open, after it closed, 50 s later (key slot and timestamp still valid) and again after another genuine
session; genuine exchanges continue in between and must be unaffected.
"""
import ingress


def mine(cause):
    return cause["cls"].startswith("replay")


def run(ctx, wd):
    ingress.model(ctx)
    seeds = [ctx.seed] if not ctx.thorough() else [ctx.seed, ctx.seed + 1, ctx.seed + 2]
    for k, sd in enumerate(seeds):
        events = ingress.run_world(ctx, wd, sd, name="c06_%d" % k)
        rep = [e for e in events if e["ev"] == "In" and e["adv"] and mine(e)]
        ctx.coverage["evaluations"] += len(rep)
        ctx.coverage["distinct_nontrivial"] += len({(e["tr"], e["cls"]) for e in rep})
        ctx.coverage["replayed_units"] = ctx.coverage.get("replayed_units", 0) + len(rep)
        if k == 0 and rep:
            ctx.sample({"kind": "replayed unit as logged", "event": rep[len(rep) // 2]})
        ingress.check(ctx, wd, events, mine, "C06", "c06_%d" % k)
