-------------------------------- MODULE Quota --------------------------------
(***************************************************************************)
(* Admission of a new server session against the user's quotas             *)
(* (Session.checkQuota): a user whose counted traffic inside a quota       *)
(* window exceeds the allowance is refused; everybody else is served.      *)
(* Traffic is in units of MiB/4 so that the boundary classes are explicit. *)
(***************************************************************************)
EXTENDS Integers, FiniteSets, Sequences, TLC, Json

MiB == 4                                  \* model units per MiB
Allowance == {1, 2}                       \* quota in MiB
\* counted traffic (upload + download inside the window), around the boundary of an allowance a:
\*   a*MiB - 1, a*MiB, (a+1)*MiB - 1  are within (integer division, strict comparison);  (a+1)*MiB and beyond are over
Used(a) == {0, a * MiB - 1, a * MiB, (a + 1) * MiB - 1, (a + 1) * MiB, (a + 1) * MiB + 1, (a + 3) * MiB}
UserKind == {"quota", "noquota", "otherOver"}   \* the user opening the session: has a quota / has none / has none while ANOTHER user is over

Over(used, a) == used \div MiB > a
Admit(kind, used, a) == IF kind = "quota" THEN ~Over(used, a) ELSE TRUE

\* C19
Binds == \A a \in Allowance : \A u \in Used(a) : Over(u, a) => ~Admit("quota", u, a)
Spares == \A a \in Allowance : \A u \in Used(a) : /\ (~Over(u, a) => Admit("quota", u, a))
                                               /\ Admit("noquota", u, a) /\ Admit("otherOver", u, a)
Table == UNION { { [kind |-> k, a |-> a, used |-> u, mib |-> MiB, admit |-> Admit(k, u, a)] : k \in UserKind, u \in Used(a) } : a \in Allowance }
ASSUME Binds
ASSUME Spares
ASSUME PrintT(<<"TABLE", ToJson(Table)>>)
VARIABLE x
Init == x = 0
Next == x' = x /\ FALSE
=============================================================================
