"""C10 - no input from the network can crash the process; a misbehaving peer loses at most what is its own.

design specs  spec/HostilePeer.tla: the language of hostile-but-authenticated segments (an honest unit in which one to three fields -
              type incl. wrong-direction and undefined values, session id incl. 0 / another user's live session / closed / unknown,
              seq, ack, window, fragment, declared lengths vs. the bytes that follow, padding, body authenticity, low-entropy
              parameters, timestamp, source address, status - are replaced by boundary members of their class) over the state of the
              sender's own session, with the contract Alive / VictimUnaffected; spec/HostileSocks.tla: the grammar of SOCKS5
              greetings, RFC 1929 requests, two-byte replies, requests/replies and UDP-associate datagrams over boundary classes
              (versions, commands, address types and forms, every truncation point, trailing garbage)
spec -> code  TLC simulation generates behaviours of HostilePeer for both roles; each is concretised with the reference codec under a
              REGISTERED user's key and sent to a real server mux (role server) or, by a hostile server, to a real client mux (role
              client), TCP and UDP, while another user's session in the same process does an echo after every unit.  TLC enumerates
              the SOCKS5 classes exhaustively; they are presented to real socks5.Server instances in server and client placement, to
              an association's tunnel, to the relay socket of a datagram-mode association and of the client-side association, as replies of a hostile proxy server / egress proxy, and to the socks5 dialer and UDP
              transceiver.  The real endpoints run in a child process that flushes each event before acting, so a death is attributed
code -> spec  TLC validates the event streams (Trace_HostilePeer, Trace_HostileSocks): NoCrash, VictimKeepsWorking /
              VictimKeepsBeingServed on what happened; membership of every unit in the specification's language as conformance
"""
import json
import os
import random
import re
import shutil
import subprocess

import vlib
from vlib import Inconclusive


def build(wd):
    exe = os.path.join(wd, "c10.test")
    p = subprocess.run([vlib.GO, "test", "-c", "-tags", "verif", "-o", exe, "./c10/"], cwd=vlib.HARNESS,
                       env=vlib.go_env(), capture_output=True, text=True, timeout=900)
    if p.returncode != 0:
        raise Inconclusive("cannot build the driver:\n" + p.stdout[-2000:] + p.stderr[-2000:])
    return exe


def child(exe, test, fin, fout, timeout, extra_env=None):
    env = dict(os.environ)
    env.update({"VERIF_IN": fin, "VERIF_OUT": fout})
    env.update(extra_env or {})
    try:
        p = subprocess.run([exe, "-test.run", test + "$", "-test.timeout", "%ds" % timeout], env=env, capture_output=True, text=True,
                           timeout=timeout + 60, cwd=os.path.dirname(exe))
        return p.returncode, p.stdout + p.stderr
    except subprocess.TimeoutExpired as e:
        return -9, "supervisor timeout\n" + ((e.stdout or b"").decode(errors="replace") if isinstance(e.stdout, bytes) else (e.stdout or ""))[-3000:]


def crash_signature(log):
    """(message, site) of a Go panic / fatal error in a child log."""
    m = re.search(r"^(panic: .*|fatal error: .*)$", log, re.M)
    if not m:
        return None, None
    msg = m.group(1)
    tail = log[m.end():]
    site = None
    for fm in re.finditer(r"^(github\.com/enfein/mieru/v3/[^\s(]+)\(", tail, re.M):
        site = fm.group(1).replace("github.com/enfein/mieru/v3/", "")
        break
    norm = re.sub(r"0x[0-9a-f]+|\d+", "N", msg)
    norm = re.sub(r"\{[^}]*\}", "{..}", norm)
    norm = re.sub(r'"[^"]*"', '"_"', norm)
    return msg[:300], "%s|%s" % (site or "?", norm[:100])


def run_segments(ctx, exe, wd, behaviours, label):
    """Runs behaviours in child processes; after a death the unit in flight is reported, skipped, and the rest continues."""
    events = []
    pending = list(behaviours)
    crashes = 0
    rnd = 0
    while pending and crashes <= 6:
        fin, fout = os.path.join(wd, "%s_in_%d.ndjson" % (label, rnd)), os.path.join(wd, "%s_out_%d.ndjson" % (label, rnd))
        rnd += 1
        vlib.write_ndjson(fin, pending)
        rc, log = child(exe, "TestHostile", fin, fout, timeout=2400)
        evs = vlib.read_ndjson(fout) if os.path.exists(fout) else []
        done = {e["id"] for e in evs if e["ev"] == "E"}
        events += evs
        if rc == 0 and all(b["id"] in done for b in pending):
            break
        msg, sig = crash_signature(log)
        if msg is None:
            raise Inconclusive("hostile-peer driver died without a panic (rc=%s):\n%s" % (rc, log[-3000:]))
        crashes += 1
        last = next((e for e in reversed(evs) if e["ev"] == "S"), None)
        if last is None:
            raise Inconclusive("driver crashed before any step:\n" + log[-3000:])
        events.append({"ev": "Crash", "id": last["id"], "k": last["k"], "tr": last["tr"], "role": last["role"], "op": last["op"], "u": last["u"],
                       "ok": False, "note": msg, "hex": sig})
        b = next(x for x in pending if x["id"] == last["id"])
        rp = ctx.save_replay("crash_%s_%d.json" % (label, crashes), {"behaviour": b, "step": last["k"], "panic": msg, "log_tail": log[-6000:]})
        ctx.report("process died: %s -- while handling step %d of behaviour %d (%s, role %s): %s %s"
                   % (msg, last["k"], b["id"], b["tr"], b["role"], last["op"], json.dumps(last["u"]) if last["op"] == "unit" else ""), rp, "C10:" + sig)
        b["skip"] = sorted(set(b.get("skip", []) + [last["k"]]))
        pending = [x for x in pending if x["id"] not in done]
    return events


def run_socks(ctx, exe, wd, units, label):
    events = []
    pending = list(units)
    crashes = 0
    rnd = 0
    while pending and crashes <= 6:
        fin, fout = os.path.join(wd, "%s_in_%d.ndjson" % (label, rnd)), os.path.join(wd, "%s_out_%d.ndjson" % (label, rnd))
        rnd += 1
        vlib.write_ndjson(fin, pending)
        rc, log = child(exe, "TestHostileSocks", fin, fout, timeout=1200, extra_env={"VERIF_PAR": "16" if len(pending) > 16 else "1"})
        evs = vlib.read_ndjson(fout) if os.path.exists(fout) else []
        events += evs
        finished = {e["id"] for e in evs if e["ev"] == "R"}
        if rc == 0 and any(e["ev"] == "E" for e in evs):
            break
        msg, sig = crash_signature(log)
        if msg is None:
            raise Inconclusive("SOCKS driver died without a panic (rc=%s):\n%s" % (rc, log[-3000:]))
        crashes += 1
        started = [e for e in evs if e["ev"] == "S" and e["id"] not in finished]
        # the death can also come from a goroutine a unit left behind (a relay loop choking on what it was handed), after
        # that unit's own record: the most recently finished units are suspects as well
        recent = [e for e in reversed(evs) if e["ev"] == "S" and e["id"] in finished][:48]
        culprit = None
        if len(started) == 1 and not recent:
            culprit = started[0]
        else:  # present each suspect alone
            for s in started + recent:
                f1, o1 = os.path.join(wd, "%s_one_in.ndjson" % label), os.path.join(wd, "%s_one_out.ndjson" % label)
                if os.path.exists(o1):
                    os.remove(o1)
                vlib.write_ndjson(f1, [x for x in pending if x["id"] == s["id"]])
                rc1, log1 = child(exe, "TestHostileSocks", f1, o1, timeout=300, extra_env={"VERIF_PAR": "1"})
                if rc1 != 0 and crash_signature(log1)[0]:
                    culprit, log, (msg, sig) = s, log1, crash_signature(log1)
                    break
        if culprit is None:
            if "|" in sig and not sig.startswith("?"):
                # a death inside mieru's own code is an observation of the real code even if no single unit brings it back
                crashes += 1
                suspects = [x for x in pending if x["id"] in {e["id"] for e in started + recent}]
                rp = ctx.save_replay("crash_%s_%d.json" % (label, crashes), {"units": suspects, "panic": msg, "log_tail": log[-6000:]})
                ctx.report("process died: %s -- not reproduced by any single unit; units in flight or just finished: %s"
                           % (msg, json.dumps([u["m"] for u in suspects[:3]])[:300]), rp, "C10:" + sig)
                events.append({"ev": "Crash", "id": -1, "world": "?", "m": suspects[0]["m"] if suspects else {}, "ok": False, "note": msg, "hex": sig})
                gone = {u["id"] for u in suspects}
                pending = [x for x in pending if x["id"] not in finished and x["id"] not in gone]
                continue
            raise Inconclusive("SOCKS driver crashed (%s) outside mieru's code and no single unit reproduces it:\n%s" % (msg, log[-3000:]))
        events.append({"ev": "Crash", "id": culprit["id"], "world": culprit["world"], "m": culprit["m"], "ok": False, "note": msg, "hex": sig})
        u = next(x for x in pending if x["id"] == culprit["id"])
        rp = ctx.save_replay("crash_%s_%d.json" % (label, crashes), {"unit": u, "panic": msg, "log_tail": log[-6000:]})
        ctx.report("process died: %s -- while handling %s in world %s" % (msg, json.dumps(u["m"]), u["world"]), rp, "C10:" + sig)
        pending = [x for x in pending if x["id"] not in finished and x["id"] != culprit["id"]]
    return events


def behaviours(ctx, role, n, first_id):
    res = vlib.tlc("HostilePeer", "MC_HostilePeer_" + role, simulate=max(n * 2, 40), depth=90, seed=ctx.seed, workers=1, timeout=900,
                   env={"VERIF_SEED": str(ctx.seed)})
    if res.violated or res.error:
        raise Inconclusive("HostilePeer simulation: %s %s" % (res.violated, res.error))
    ctx.add_tlc(res, "HostilePeer simulation, role " + role)
    seen, out = set(), []
    for _t, b in res.prints:
        k = json.dumps(b)
        if k in seen:
            continue
        seen.add(k)
        out.append(b)
    rnd = random.Random(ctx.seed)
    rnd.shuffle(out)
    rows = []
    for i, b in enumerate(out[:n]):
        rows.append({"id": first_id + i, "tr": "udp" if i % 2 == 0 else "tcp", "role": role, "steps": b, "skip": []})
    return rows


def validate(ctx, wd, module, path, props, conf):
    def describe(rec, inv):
        if rec["ev"] == "Crash":
            return None  # already reported with its panic text by the supervisor
        if rec["ev"] == "V":
            where = ("step %d of behaviour %d (%s, role %s)" % (rec["k"], rec["id"], rec["tr"], rec["role"])) if "k" in rec else ("unit %d in world %s" % (rec["id"], rec["world"]))
            return ("%s: another user's session stopped working after %s: %s" % (inv, where, rec["note"]), "C10:%s:%s" % (inv, rec.get("role", rec.get("world"))))
        return ("%s at %s" % (inv, json.dumps(rec)[:300]), "C10:%s" % inv)
    vlib.validate_records(ctx, module, module, path, props, describe, wd, max_reports=4)

    def ddrift(rec, inv):
        return ("%s: %s" % (inv, json.dumps(rec)[:300]), "drift")
    vlib.validate_records(ctx, module, conf, path, ("InLanguage", "HandlerReturns"), ddrift, wd, drift=True)


def run(ctx):
    ctx.level = "exploration"
    ctx.coverage["rule"] = ("behaviours = 24 steps each (honest open/close of the hostile peer's own session and hostile units with 1-3 lying "
                            "fields) drawn by TLC simulation per role and transport; SOCKS5 units = hostile members of the exhaustively "
                            "enumerated classes, sampled per world in the quick tier; distinct_nontrivial = distinct (transport, role, unit classes) tuples and distinct (world, message class) pairs presented")
    ctx.assumptions += ["the hostile peer holds a registered user's credential (unauthenticated input is C05's)",
                        "one process hosts the endpoint under attack and the victim; its death is observed from a supervisor",
                        "segment worlds run in virtual time, SOCKS5 worlds on the loopback interface in real time"]
    wd = vlib.scratch_dir("verif-c10-")
    try:
        res = vlib.tlc("MC_HostileSocks", "MC_HostileSocks", timeout=600, tags=("TABLE",))
        if res.violated or res.error or not res.prints:
            raise Inconclusive("HostileSocks: %s %s" % (res.violated, res.error))
        ctx.add_tlc(res, "HostileSocks: exhaustive enumeration of the message classes")
        table = res.prints[0][1]
        exe = build(wd)
        nb = 16 if not ctx.thorough() else 300
        beh = behaviours(ctx, "server", nb, 0) + behaviours(ctx, "client", nb, 100000)
        ctx.sample({"kind": "TLC behaviour (first steps)", "steps": beh[0]["steps"][:4]})
        ev = run_segments(ctx, exe, wd, beh, "seg")
        hostile = sum(1 for e in ev if e["ev"] == "S" and e["op"] == "unit")
        ctx.coverage["evaluations"] += hostile
        ctx.coverage["distinct_nontrivial"] += len({(e["tr"], e["role"], json.dumps(e["u"], sort_keys=True)) for e in ev if e["ev"] == "S" and e["op"] == "unit"})
        reach = [int(e["note"].split("=")[1]) for e in ev if e["ev"] == "E" and e.get("note", "").startswith("reach=")]
        ctx.coverage["behaviours_in_which_the_real_endpoint_answered_the_hostile_peer"] = "%d of %d" % (sum(1 for r in reach if r > 0), len(reach))
        if reach and sum(1 for r in reach if r > 0) < len(reach) * 0.8:
            raise Inconclusive("the hostile peer's own session is not being established in most behaviours (driver problem)")
        p1 = os.path.join(wd, "seg_events.ndjson")
        vlib.write_ndjson(p1, ev)
        validate(ctx, wd, "Trace_HostilePeer", p1, ("NoCrash", "VictimKeepsWorking"), "Trace_HostilePeer_conf")
        # SOCKS5
        rnd = random.Random(ctx.seed)
        units = []

        def add(world, kinds, n):
            pool = [m for k in kinds for m in table[k]]
            pick = pool if (ctx.thorough() or len(pool) <= n) else rnd.sample(pool, n)
            for m in pick:
                units.append({"id": len(units), "world": world, "m": m})
        add("user-to-server", ["greeting", "authreq"], 400)
        add("user-to-server", ["message"], 250)
        add("user-to-client", ["greeting", "message"], 200)
        add("tunnel-datagram-to-server", ["datagram"], 200)
        add("datagram-to-relay", ["datagram"], 200)
        add("user-datagram-to-client", ["datagram"], 150)
        add("proxy-to-client", ["reply2", "message"], 200)
        add("egress-to-server", ["reply2", "message"], 200)
        add("proxy-to-dialer", ["reply2", "message"], 250)
        for _k in range(8 if not ctx.thorough() else 32):   # one per worker: association churn through the egress proxy
            units.append({"id": len(units), "world": "egress-udp-churn", "m": table["reply2"][0]})
        add("datagram-to-transceiver", ["datagram"], 150)
        sev = run_socks(ctx, exe, wd, units, "socks")
        ctx.coverage["evaluations"] += sum(1 for e in sev if e["ev"] == "R")
        ctx.coverage["distinct_nontrivial"] += len({(e["world"], json.dumps(e["m"], sort_keys=True)) for e in sev if e["ev"] == "R"})
        ctx.sample({"kind": "SOCKS5 unit as logged", "event": next(e for e in sev if e["ev"] == "R" and e["m"]["k"] == "message")})
        p2 = os.path.join(wd, "socks_events.ndjson")
        vlib.write_ndjson(p2, sev)
        validate(ctx, wd, "Trace_HostileSocks", p2, ("NoCrash", "VictimKeepsBeingServed"), "Trace_HostileSocks_conf")
    finally:
        shutil.rmtree(wd, ignore_errors=True)


def replay(ctx, path):
    rp = json.load(open(path))
    wd = vlib.scratch_dir("verif-c10r-")
    try:
        exe = build(wd)
        if "behaviour" in rp:
            b = rp["behaviour"]
            b["skip"] = [k for k in b.get("skip", []) if k != rp["step"]]
            run_segments(ctx, exe, wd, [b], "replay")
        else:
            run_socks(ctx, exe, wd, [rp["unit"]], "replay")
    finally:
        shutil.rmtree(wd, ignore_errors=True)
