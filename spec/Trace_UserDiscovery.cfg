SPECIFICATION Spec
INVARIANTS Authenticated NoCredentialRejected MandatoryHintRejected HintPreferred Accepted CacheIndependent
POSTCONDITION TraceAccepted
CHECK_DEADLOCK FALSE
