CONSTANTS
  Sess = {1}
  NC = 2
  NS = 1
  Frag = TRUE
  HoldMutex = TRUE
  CloseC = TRUE
  Tampers = 0
  Recheck = TRUE
INIT MCInit
NEXT MCNext
VIEW View
INVARIANTS PrefixOK NoFramingLoss CloseNoTrunc NeverBroken DumpHist
CHECK_DEADLOCK FALSE
