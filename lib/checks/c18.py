"""C18 - UDP-associate tunnelling preserves datagram boundaries, contents and addressing.

design spec   spec/PacketFraming.tla: writer and byte-driven reader automata (so every chunking is covered), abstract
              alphabet {0x00 marker, 0xff marker, other}; TLC checks RoundTrip, Truncation, BadMarkers, Oversize for all
              sequences of up to two datagrams and exports the cases
spec -> code  every case x size/content concretisations (0, 1, 255/256, 65534/65535; marker-like bytes at both ends) x stream
              chunkings (1 byte, 3 bytes, random, unchunked) x damage (wrong first/second marker, cut at every header/data/
              trailer position class, reader buffer too small) through the real PacketOverStreamTunnel and UDPAssociateWrapper
              relay: a real socks5.Server association with three destinations (IPv4 x2, IPv6) and every interleaving of
              requests and replies of a small set of orders
code -> spec  TLC validates every record (Trace_PacketFraming)
"""
import itertools
import json
import os
import random
import re
import shutil

import vlib
from vlib import Inconclusive

PROPS = ("RoundTripReal", "BadMarkerReal", "TruncationReal", "OversizeReal", "RelayDest", "ReplyLabel")


def signature(inv, r):
    if inv == "RoundTripReal" and r.get("through") == "wrapper":
        return "C18:wrapper:empty-datagram" if r.get("got", 0) < r.get("sent", 0) else "C18:wrapper:RoundTripReal"
    return "C18:%s" % inv


def validate(ctx, path, wd, what):
    remaining = path
    for attempt in range(12):
        r = vlib.tlc("Trace_PacketFraming", workers=1, timeout=2400, env={"VERIF_TRACE": remaining}, keep_out=True, heap="12g")
        if r.violated in PROPS:
            m = re.findall(r"/\\ l = (\d+)", r.trace[-1] if r.trace else "")
            line = int(m[-1]) - 1 if m else 1
            cur = vlib.read_ndjson(remaining)
            bad = cur[line - 1]
            rp = ctx.save_replay("%s_%s_%d.json" % (what, r.violated, attempt), bad)
            ctx.report("%s: %s" % (r.violated, bad), rp, signature(r.violated, bad))
            rest = cur[line:]
            if not rest or len(ctx.violations) >= 4:
                return
            remaining = os.path.join(wd, "%s.rest%d.ndjson" % (what, attempt))
            vlib.write_ndjson(remaining, rest)
            continue
        if r.violated or r.error or not r.finished:
            raise Inconclusive("Trace_PacketFraming: %s %s\n%s" % (r.violated, r.error, r.out[-1500:]))
        ctx.coverage["states"] += r.distinct
        ctx.coverage["traces_validated_against_impl"] += r.distinct - 1
        return


def run(ctx):
    ctx.level = "model_checking"
    ctx.coverage["rule"] = ("all datagram sequences of the model (<= 2 datagrams over {0x00, 0xff, other}^<=3, plus edge triples) x "
                            "concretisations x chunkings x damage classes; relay orders over three destinations. "
                            "distinct_nontrivial = framing runs with at least one datagram + relay steps")
    ctx.assumptions += ["framing runs in virtual time over simnet.Stream; relay runs in real time on loopback sockets (127.0.0.1, ::1)"]
    wd = vlib.scratch_dir("verif-c18-")
    try:
        res = vlib.tlc("MC_PacketFraming", timeout=1200, tags=("CASES",))
        if res.violated or res.error or not res.prints:
            raise Inconclusive("PacketFraming model: %s %s\n%s" % (res.violated, res.error, res.out[-1500:]))
        cases = res.prints[0][1]
        ctx.coverage["states"] += 1
        ctx.coverage["transitions"] += len(cases)
        ctx.coverage.setdefault("tlc_runs", []).append({"what": "PacketFraming RoundTrip/Truncation/BadMarkers/Oversize, %d cases exported" % len(cases),
                                                       "wall_s": round(res.wall, 1)})
        rnd = random.Random(ctx.seed)
        if not ctx.thorough():
            cases = [c for c in cases if len(c) <= 1] + rnd.sample([c for c in cases if len(c) > 1], 260)
        cin, cout = os.path.join(wd, "cases.ndjson"), os.path.join(wd, "framing.ndjson")
        vlib.write_ndjson(cin, cases)
        rc, log, _ = vlib.go_test("./c18/", "TestFraming$", env={"VERIF_IN": cin, "VERIF_OUT": cout, "VERIF_SEED": ctx.seed,
                                                                  "VERIF_VARIANTS": 2 if not ctx.thorough() else 4}, timeout=3000)
        if rc != 0 or not os.path.exists(cout):
            raise Inconclusive("driver TestFraming failed:\n" + log[-3000:])
        got = vlib.read_ndjson(cout)
        ctx.coverage["evaluations"] += len(got)
        ctx.coverage["distinct_nontrivial"] += sum(1 for r in got if r["sent"] > 0 or r["mut"] != "none")
        ctx.coverage["framing_runs_by_damage"] = {m: sum(1 for r in got if r["mut"] == m) for m in sorted({r["mut"] for r in got})}
        ctx.sample({"kind": "framing run", "record": got[len(got) // 2]})
        validate(ctx, cout, wd, "framing")
        # relay: orders of sends (s<i>) and replies (r<i>) over destinations 0,1 (IPv4) and 2 (IPv6)
        orders = [["s0", "r0"], ["s0", "s1", "r0", "r1"], ["s0", "s1", "r1", "r0"], ["s0", "s2", "r0", "r2"], ["s2", "s0", "r2", "r0"],
                  ["s0", "s1", "s2", "r0", "r1", "r2"], ["s1", "s0", "s1", "r0", "r1", "s2", "r1", "r2", "r0"],
                  ["s2", "s1", "r2", "s0", "r1", "r0", "r2"],
                  # n<i>: the same destination given by NAME ("localhost") and port: two destinations share one name
                  ["n0", "n1", "n0", "n1"], ["n1", "n0", "s0", "n1", "s1"], ["s0", "n1", "n0", "s1", "n1"]]
        if ctx.thorough():
            for p in itertools.permutations(["s0", "s1", "s2"]):
                for q in itertools.permutations(["r0", "r1", "r2"]):
                    orders.append(list(p) + list(q))
        rin, rout = os.path.join(wd, "orders.ndjson"), os.path.join(wd, "relay.ndjson")
        vlib.write_ndjson(rin, orders)
        rc, log, _ = vlib.go_test("./c18/", "TestRelay$", env={"VERIF_IN": rin, "VERIF_OUT": rout}, timeout=1800)
        if rc != 0 or not os.path.exists(rout):
            raise Inconclusive("driver TestRelay failed:\n" + log[-3000:])
        rg = vlib.read_ndjson(rout)
        if len(rg) < sum(len(o) for o in orders) * 0.6:
            raise Inconclusive("relay driver produced %d records for %d steps" % (len(rg), sum(len(o) for o in orders)))
        ctx.coverage["evaluations"] += len(rg)
        ctx.coverage["distinct_nontrivial"] += len(rg)
        ctx.sample({"kind": "relay step", "record": rg[3]})
        validate(ctx, rout, wd, "relay")
    finally:
        shutil.rmtree(wd, ignore_errors=True)


def replay(ctx, path):
    print(json.load(open(path)))
