"""C03 - graceful close never turns a partial transfer into a clean end-of-stream.

design specs  spec/SessionPacket.tla (CloseBegin/CloseTimeout/CloseFlush, close acted on when dispatched;
              invariant CloseNoTrunc; config MC_SP_prefix shows the pre-fix receiver violating it)
              spec/SessionStream.tla (reader = ReaderCheck / ReaderWait two-step; invariant CloseNoTrunc)
spec -> code  TLC fault schedules of the closing configurations replayed on real muxes; the reader is parked
              at the hook point read.wait (between the empty-queue check and the select) while data and the
              close arrive
code -> spec  every trace validated by TLC against Trace_Session (CloseNoTrunc evaluated at every Read return)
"""
import json
import random
import shutil

import sessions
import vlib
from vlib import Inconclusive
from checks import c02

INVS = ["CloseNoTrunc", "ReadExact"]


def named_schedules(seed):
    out = []
    F = lambda ep, kind, seq, tx, fate, **kw: dict({"ep": ep, "kind": kind, "s": -1, "seq": seq, "tx": tx, "fate": fate}, **kw)

    def add(name, transport, c, s, **kw):
        d = {"id": "named/%s/%s" % (transport, name), "transport": transport, "mtu": 1400, "seed": seed,
             "sessions": [{"c": c, "s": s}], "limit": 900}
        d.update(kw)
        out.append(d)
    for tr in ("tcp", "udp"):
        # reader with a buffer smaller than a segment, starting after the close has been processed
        add("late-small-reader-upload", tr, [["w", 10000], ["close"]], [["sleep", 500], ["rall", 1000]])
        add("late-small-reader-download", tr, [["w", 1], ["sleep", 800], ["rall", 700]],
            [["w", 10000], ["close"]])
        add("late-small-reader-odd", tr, [["w", 4097], ["w", 3], ["close"]], [["sleep", 500], ["rall", 333]])
        # writer closes right after a large burst (UDP: window smaller than queue, bounded wait in Close)
        add("burst-then-close", tr, [["w", 32768]] * 8 + [["close"]], [["rall", 4096]], notx=2)
        add("burst-then-close-slow-reader", tr, [["w", 32768]] * 6 + [["close"]],
            [["sleep", 3000], ["rall", 512]], notx=2)
        # close with nothing written after the first byte; close with zero-length last write
        add("close-after-tiny", tr, [["w", 1], ["close"]], [["rall"]])
        add("close-after-empty-write", tr, [["w", 700], ["w", 0], ["close"]], [["rall"]])
        # the peer closes while this side is still writing back
        add("both-directions", tr, [["w", 3000], ["rn", 2000], ["close"]], [["w", 2000], ["rall"]])
    # TCP: reader parked between its empty-queue check and the select while data and close arrive
    for nth in (2,):
        add("reader-between-check-and-wait-%d" % nth, "tcp",
            [["w", 10], ["wait", "parked"], ["w", 3000], ["close"], ["sleep", 50], ["sig", "go"]], [["rall"]],
            gates=[{"point": "read.wait", "ep": "S", "s": 0, "nth": nth, "until": "go", "reach": "parked"}])
    add("reader-between-check-and-wait-download", "tcp",
        [["w", 10], ["rall"]], [["wait", "parked"], ["w", 5000], ["close"], ["sleep", 50], ["sig", "go"]],
        gates=[{"point": "read.wait", "ep": "C", "s": 0, "nth": 1, "until": "go", "reach": "parked"}])
    # TCP: two sessions share one connection whose server-to-client direction is slow (6 s).  X is closed locally and its underlay has
    # forgotten it (5 s clean-up) when the peer's close response for X arrives; that stale message must not cost Y, whose data and
    # graceful close are in flight behind it, the end of its stream
    out.append({"id": "named/tcp/stale-close-of-a-forgotten-sibling", "transport": "tcp", "mtu": 1400, "seed": seed, "multiplex": 100,
                "s2clat": 6000, "limit": 900, "notx": 2,
                "sessions": [{"c": [["w", 10], ["sleep", 50], ["close"]], "s": [["w", 5], ["rall"]]},   # the server answers X at once: its open response is in flight when X is forgotten
                             {"c": [["w", 1], ["rall", 65536]], "s": [["rn", 1], ["sleep", 300], ["w", 20000], ["sleep", 100], ["w", 30000], ["close"]]}]})
    # TCP: backlog larger than recvQueue + recvChan when the close request arrives
    # (recvQueue 4096 + the segment held by the input loop + recvChan 256, +1 taken by the harness's first read)
    for nw in (4352, 4353, 4354, 4355, 6000):
        add("slow-reader-backlog-%d" % nw, "tcp", [["wn", nw, 64], ["close"], ["sig", "closed"]],
            [["wait", "closed"], ["rall", 65536]], notx=2, limit=2000)
    # UDP: loss / reordering around the close
    for k in (1, 2, 3, 4):
        add("lose-data-%d-deliver-close" % k, "udp", [["w", 5000], ["close"]], [["rall"]],
            faults=[F("C", "data", k, 1, "drop")])
    add("lose-last-two-data", "udp", [["w", 5000], ["close"]], [["rall"]],
        faults=[F("C", "data", 3, 1, "drop"), F("C", "data", 4, 1, "drop")])
    add("close-overtakes-data", "udp", [["w", 5000], ["close"]], [["rall"]],
        faults=[F("C", "data", 4, 1, "delay", ms=40)])
    add("close-overtakes-all-data", "udp", [["w", 3000], ["close"]], [["rall"]],
        faults=[F("C", "data", -1, 1, "delay", ms=60)])
    add("lose-close-request", "udp", [["w", 5000], ["close"]], [["rall"]], faults=[F("C", "close", -1, 1, "drop")])
    # the close request never arrives and a data segment before it is lost too: the reader is released only by the idle timeout
    # (60 s) and must not take that for the end of the stream
    for k in (2, 4):
        add("lose-data-%d-and-every-close-request" % k, "udp", [["w", 5000], ["close"]], [["rall"]],
            faults=[F("C", "data", k, 1, "drop"), F("C", "close", -1, 0, "drop")])
    add("server-closes-lose-data-and-every-close-request", "udp", [["w", 1], ["rall"]], [["w", 6000], ["close"]],
        faults=[F("S", "data", 2, 1, "drop"), F("S", "close", -1, 0, "drop")])
    add("duplicate-close-and-data", "udp", [["w", 5000], ["close"]], [["rall"]],
        faults=[F("C", "any", -1, 0, "dup", ms=20)])
    add("server-closes-lose-data", "udp", [["w", 1], ["rall"]], [["w", 6000], ["close"]],
        faults=[F("S", "data", 2, 1, "drop")])
    add("server-closes-overtake", "udp", [["w", 1], ["rall"]], [["w", 6000], ["close"]],
        faults=[F("S", "data", 3, 1, "delay", ms=50)])
    return out


def random_close_runs(n, seed):
    rnd = random.Random(seed)
    out = []
    for k in range(n):
        tr = rnd.choice(["udp", "udp", "tcp"])
        w = [rnd.choice([1, 500, 1024, 1025, 1312, 2624, 5000, 40000]) for _ in range(rnd.randint(1, 4))]
        closer_is_client = rnd.random() < 0.6
        rb = rnd.choice([64, 333, 1312, 4096, 65536])
        delay = rnd.choice([0, 0, 5, 300, 1500])
        if closer_is_client:
            c = [["w", x] for x in w] + [["close"]]
            s = [["sleep", delay], ["rall", rb]]
        else:
            c = [["w", 1], ["sleep", delay], ["rall", rb]]
            s = [["w", x] for x in w] + [["close"]]
        out.append({"id": "randclose/%d-%s" % (k, tr), "transport": tr, "mtu": rnd.choice([1280, 1400, 1500]),
                    "loss": rnd.choice([0, 10, 25]) if tr == "udp" else 0, "dup": rnd.choice([0, 10]) if tr == "udp" else 0,
                    "delay": rnd.choice([0, 20]) if tr == "udp" else 0, "chunk": rnd.choice([0, -1, 5]) if tr == "tcp" else 0,
                    "sessions": [{"c": c, "s": s}], "seed": seed * 100 + k, "limit": 900, "notx": 2})
    return out


def run(ctx):
    ctx.level = "model_checking"
    ctx.coverage["rule"] = ("closing configurations of the SessionPacket model (every drop/dup schedule), the reader "
                            "two-step of SessionStream, named close races and random close points; CloseNoTrunc is "
                            "evaluated by TLC at every Read return of every recorded trace. distinct_nontrivial = "
                            "scenarios in which a Close happened with data still unread or in flight")
    ctx.assumptions += ["virtual time (testing/synctest)", "hook read.wait (tag verif) parks the reader between check and select"]
    wd = vlib.scratch_dir("verif-c03-")
    try:
        cfgs = ["MC_SP_c", "MC_SP_d"] + (["MC_SP_q2"] if ctx.thorough() else [])
        tables = c02.model(ctx, cfgs)
        res = vlib.tlc("MC_SessionPacket", "MC_SP_prefix", timeout=300)
        ctx.coverage["model_detects_prefix_defect"] = res.violated == "CloseNoTrunc"
        if res.violated != "CloseNoTrunc":
            raise Inconclusive("sanity: pre-fix receiver model should violate CloseNoTrunc, got %s %s" % (res.violated, res.error))
        import checks.c01 as c01
        c01.stream_model(ctx, close=True)
        rnd = random.Random(ctx.seed + 3)
        scen = []
        per_cfg = 60 if not ctx.thorough() else 100000
        for cfg, tabs in tables.items():
            pick = tabs if len(tabs) <= per_cfg else rnd.sample(tabs, per_cfg)
            for k, t in enumerate(pick):
                sc = c02.scenario_from(cfg, k, t, ctx.seed, mtu=[1400, 1280, 1500][k % 3])
                sc["notx"] = 1
                scen.append(sc)
        scen += named_schedules(ctx.seed)
        scen += random_close_runs(30 if not ctx.thorough() else 400, ctx.seed)
        if ctx.thorough():
            # the gated races are scheduler dependent: repeat them
            reps = [dict(s, id=s["id"] + "#%d" % r, seed=ctx.seed + r) for r in range(20)
                    for s in named_schedules(ctx.seed) if "between-check" in s["id"]]
            scen += reps
        ctx.coverage["distinct_nontrivial"] += len(scen)
        trace = sessions.check_traces(ctx, scen, wd, "c03", INVS, timeout=3000)
        sessions.sample_trace(ctx, trace, "named/udp/lose-data-2-deliver-close", n=40)
    finally:
        shutil.rmtree(wd, ignore_errors=True)


def replay(ctx, path):
    rp = json.load(open(path))
    wd = vlib.scratch_dir("verif-c03r-")
    try:
        sessions.check_traces(ctx, [rp["scenario"]], wd, "replay", INVS)
    finally:
        shutil.rmtree(wd, ignore_errors=True)
