CONSTANTS
  K = 2
  Units <- MCUnits
  Thresholds <- MCThresholds
  Deltas = {1, 2}
  Steps = {0, 1, 5, 9, 17, 129}
  Pres = {0, 1}
SPECIFICATION Spec
INVARIANTS Conserved Ordered WindowBounded NoFuture
PROPERTY RollUpKeepsTotal
CONSTRAINT BoundBig
CHECK_DEADLOCK FALSE
