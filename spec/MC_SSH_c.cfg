CONSTANTS
  Sess = {1, 2}
  NC = 2
  NS = 0
  Frag = FALSE
  HoldMutex = TRUE
  CloseC = TRUE
  Recheck = TRUE
INIT MCInit
NEXT MCNext
VIEW View
INVARIANTS PrefixOK NoFramingLoss CloseNoTrunc NeverBroken DumpHist
CHECK_DEADLOCK FALSE
