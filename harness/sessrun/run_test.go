package sessrun

import (
	"encoding/json"
	"testing"
	"testing/synctest"

	"verifharness/vt"
)

// TestScenarios runs every scenario of VERIF_IN in its own bubble and writes
// the recorded events to VERIF_OUT (one "Begin" line per scenario first).
func TestScenarios(t *testing.T) {
	out := vt.MustCreate(t, "VERIF_OUT")
	defer out.Close()
	n := 0
	vt.ReadLines(t, "VERIF_IN", func(line []byte) {
		sc := &Scenario{}
		if err := json.Unmarshal(line, sc); err != nil {
			t.Fatalf("bad scenario: %v", err)
		}
		n++
		synctest.Test(t, func(t *testing.T) {
			// written from inside the bubble so that a leak panic still leaves the trace on disk
			res := Run(sc)
			out.Emit(Event{Ev: "Begin", Err: sc.ID, Ep: sc.Transport, N: n, Off: -1, Ok: !res.Stalled, Fate: res.Note})
			for _, e := range res.Events {
				out.Emit(e)
			}
			out.Flush()
		})
	})
}
