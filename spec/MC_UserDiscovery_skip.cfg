CONSTANTS
  ScanHintsAlways = FALSE
INIT Init
NEXT Next
INVARIANTS AuthInv CacheInv
CHECK_DEADLOCK FALSE
