----------------------------- MODULE LowEntropy -----------------------------
(***************************************************************************)
(* The low entropy codec of docs/protocol.md (pkg/protocol/low_entropy.go, *)
(* pkg/mathext/bit.go), parametric in the word width:                      *)
(*    UnitBits   bits per source unit (8 = a byte; 2 in the reduced model)  *)
(*    ChunkUnits units per encoded chunk (8 in both), W = UnitBits*ChunkUnits *)
(* Words are sequences of bits, index 1 = least significant bit.           *)
(* At W = 8 TLC proves the algebra exhaustively (round trip, length law,   *)
(* canonicity, rejections); at W = 64 the same operators are used as an    *)
(* evaluation oracle for vectors compared with the real code.              *)
(***************************************************************************)
EXTENDS Integers, Sequences, FiniteSets, TLC

CONSTANTS UnitBits, ChunkUnits
W == UnitBits * ChunkUnits
HalfW == W \div 2

Bit == {0, 1}
Zeros(n) == [i \in 1..n |-> 0]
Ones(n) == [i \in 1..n |-> 1]
Weight(w) == Cardinality({i \in DOMAIN w : w[i] = 1})

\* number of mask bits set strictly below position i (1-based)
RECURSIVE Rank(_, _)
Rank(mask, i) == IF i <= 1 THEN 0 ELSE Rank(mask, i - 1) + mask[i - 1]

\* PDEP: deposit the low bits of x into the positions selected by mask
PDEP(x, mask) == [i \in 1..W |-> IF mask[i] = 1 THEN x[Rank(mask, i) + 1] ELSE 0]
\* PEXT: extract the bits of x selected by mask into the low bits
RECURSIVE Select(_, _, _)
Select(mask, k, i) == \* position of the k-th (1-based) set bit of mask, searching from i; 0 if none
  IF i > W THEN 0 ELSE IF mask[i] = 1 THEN (IF k = 1 THEN i ELSE Select(mask, k - 1, i + 1)) ELSE Select(mask, k, i + 1)
PEXT(x, mask) == [k \in 1..W |-> LET p == Select(mask, k, 1) IN IF p = 0 THEN 0 ELSE x[p]]

RotL(w, n) == [i \in 1..W |-> w[((i - 1 - n) % W) + 1]]
RotR(w, n) == RotL(w, W - (n % W))

\* rotation code: 0 none, 1..15 right, 16*k left by k
ValidRot(r) == r = 0 \/ r \in 1..15 \/ (r \in 16..240 /\ r % 16 = 0)
ChunkMask(half, rot, i) ==
  LET init == half \o half
  IN IF rot = 0 \/ i = 0 THEN init
     ELSE IF rot <= 15 THEN RotR(init, ((i % W) * rot) % W)
     ELSE RotL(init, ((i % W) * (rot \div 16)) % W)

\* a chunk's source units (most significant unit first) as a W-bit word with the value in the low bits
UnitsToWord(us) ==  \* us : sequence of units, each a sequence of UnitBits bits (index 1 = lsb of the unit)
  LET n == Len(us) IN
  [i \in 1..W |-> IF i <= n * UnitBits
                  THEN LET u == n - ((i - 1) \div UnitBits)      \* last unit holds the lowest bits
                       IN us[u][((i - 1) % UnitBits) + 1]
                  ELSE 0]
WordToUnits(w, n) == [u \in 1..n |-> [b \in 1..UnitBits |-> w[(n - u) * UnitBits + b]]]
LowBits(n) == [i \in 1..W |-> IF i <= n THEN 1 ELSE 0]
Or(a, b) == [i \in 1..W |-> IF a[i] = 1 \/ b[i] = 1 THEN 1 ELSE 0]
Not(a) == [i \in 1..W |-> 1 - a[i]]
And(a, b) == [i \in 1..W |-> a[i] * b[i]]

Min(a, b) == IF a < b THEN a ELSE b
NChunks(n, C) == (n + C - 1) \div C

\* Encode: body = sequence of units; C = capacity in units; half = half mask (HalfW bits, weight C*UnitBits/2)
EncodeChunk(us, mask, pad) ==
  LET data == PDEP(LowBits(Len(us) * UnitBits), mask)
      c == PDEP(UnitsToWord(us), mask)
  IN IF pad = 1 THEN Or(c, Not(data)) ELSE c
Encode(body, C, half, rot, pad) ==
  [k \in 1..NChunks(Len(body), C) |->
     LET lo == (k - 1) * C + 1
         hi == Min(k * C, Len(body))
     IN EncodeChunk(SubSeq(body, lo, hi), ChunkMask(half, rot, k - 1), pad)]

\* Decode: returns [ok |-> BOOLEAN, body |-> units].  n = extracted length in units.
ParamsOK(C, half, rot) == Weight(half) * 2 = C * UnitBits /\ ValidRot(rot)
DecodeChunkPad(chunk, mask, units) ==  \* the padding bits of a chunk: "zero", "one" or "mixed"
  LET padmask == Not(PDEP(LowBits(units * UnitBits), mask))
      p == And(chunk, padmask)
  IN IF p = Zeros(W) THEN "zero" ELSE IF p = padmask THEN "one" ELSE "mixed"
Decode(enc, n, C, half, rot) ==
  IF ~ParamsOK(C, half, rot) \/ n <= 0 \/ Len(enc) # NChunks(n, C)
  THEN [ok |-> FALSE, body |-> <<>>]
  ELSE LET units(k) == Min(C, n - (k - 1) * C)
           pads == [k \in 1..Len(enc) |-> DecodeChunkPad(enc[k], ChunkMask(half, rot, k - 1), units(k))]
           uniform == pads[1] # "mixed" /\ \A k \in 1..Len(enc) : pads[k] = pads[1]
                        \* a chunk without any padding position is compatible with both polarities
           body == [j \in 1..n |->
                      LET k == ((j - 1) \div C) + 1
                          w == PEXT(enc[k], ChunkMask(half, rot, k - 1))
                      IN WordToUnits(w, units(k))[((j - 1) % C) + 1]]
       IN [ok |-> uniform, body |-> IF uniform THEN body ELSE <<>>]
=============================================================================
