------------------------- MODULE Trace_ServerIngress -------------------------
(* Validates the event stream of a REAL server endpoint on the simulated network: In = a unit reached the server (genuine units are *)
(* decoded by the reference codec, adversary units are described by the driver that built them), Out = the server emitted a unit    *)
(* towards an address, Accept / App = the proxy application was handed a session / bytes, G = a genuine client checked an echo.     *)
EXTENDS Integers, Sequences, FiniteSets, TLC, Json, IOUtils
CONSTANT TraceTransport
Trace == ndJsonDeserialize(IOEnv.VERIF_TRACE)
Idx == 1..Len(Trace)
TAdv == {Trace[i].src : i \in {j \in Idx : Trace[j].adv}}
TG == {Trace[i].src : i \in {j \in Idx : ~Trace[j].adv /\ Trace[j].ev \in {"In", "Out", "Accept", "App"}}}
TSids == {Trace[i].sid : i \in Idx} \cup {0}
TNids == {Trace[i].nid : i \in Idx} \cup {8, 9}
VARIABLES l, nacc, ngopen, seen, sess, out, accepts, toApp, emitted, processed, taken, script, dead, lastAdv
SI == INSTANCE ServerIngress WITH G <- TG, Adv <- TAdv, Sids <- TSids, Nids <- TNids, Transport <- TraceTransport, RecordAll <- TRUE, ExactLength <- TRUE
Init == /\ l = 1 /\ nacc = 0 /\ ngopen = 0
        /\ seen = [n \in TNids |-> "-"] /\ sess = [s \in TSids |-> "-"] /\ out = [a \in TG \cup TAdv |-> 0]
        /\ accepts = 0 /\ toApp = 0 /\ emitted = {} /\ processed = {} /\ taken = {} /\ script = <<>> /\ dead = {} /\ lastAdv = FALSE
UnitOf(r) == SI!Unit(r.src, r.nid, r.hdr, r.cred, r.ts, r.body, r.kind, r.sid)
Next ==
  /\ l <= Len(Trace)
  /\ l' = l + 1
  /\ LET r == Trace[l] IN
     /\ IF r.ev = "In" THEN SI!Step(UnitOf(r)) ELSE UNCHANGED <<seen, sess, out, accepts, toApp, dead>>
     /\ nacc' = IF r.ev = "Accept" THEN nacc + 1 ELSE nacc
     /\ ngopen' = IF r.ev = "In" /\ ~r.adv /\ r.kind = "open" THEN ngopen + 1 ELSE ngopen
     /\ lastAdv' = (r.ev = "In" /\ r.adv)
  /\ UNCHANGED <<emitted, processed, taken, script>>
Spec == Init /\ [][Next]_<<l, nacc, ngopen, seen, sess, out, accepts, toApp, emitted, processed, taken, script, dead, lastAdv>>
R == Trace[l - 1]
Seen == l > 1

\* C05 / C06 on what the real server did
SilentL == (Seen /\ R.ev = "Out") => ~R.adv
NothingForApplicationL == (Seen /\ R.ev \in {"Accept", "App"}) => ~R.adv
OnlyGenuineAcceptedL == nacc <= ngopen
GenuineUnaffectedL == (Seen /\ R.ev = "G") => R.ok
\* conformance: the specification, fed the same units, stays silent towards the same addresses and accepts as many sessions
ModelSilent == SI!Silent /\ SI!NoAdvSession
ModelAccepts == (Seen /\ R.ev = "Phase" /\ R.cls = "end") => accepts = nacc
TraceAccepted == TLCGet("stats").diameter - 1 = Len(Trace)
=============================================================================
