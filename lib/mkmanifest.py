#!/usr/bin/env python3
"""Regenerates MANIFEST.json from the table below (single source of truth)."""
import json, os
HERE = os.path.dirname(os.path.dirname(os.path.abspath(__file__)))
props = [json.loads(l) for l in open(os.path.join(HERE, "properties.jsonl"))]
ids = [p["id"] for p in props]

CHECKS = {
 "C06": dict(
   category="model_checking",
   text="ReplayCache.tla models the two-generation cache action-for-action next to an ideal memory; TLC checks NoMiss/NoFalsePositive exhaustively on small constants; every transition/state of that model is replayed on the real cache in virtual time (return value and sizes compared), and random histories recorded from the real cache at larger constants are validated by TLC against the spec with the property evaluated on the logged answers.",
   note="Trusted: TLC, testing/synctest virtual clock, FNV signatures of test items do not collide. Bounds: 2-3 items, 2 tags+empty, cap 1-2 exhaustive; cap up to 6 on recorded histories.",
   technique="TLA+ spec + TLC exhaustive; model-path replay into pkg/replay; TLC trace validation of recorded histories",
   design="5/C06"),
}
PENDING = "check not built yet in this session (planned, see DESIGN.md section 5)"

m = {
 "version": 1,
 "setup_cmd": "cd /verif/harness && GOFLAGS=-mod=mod GOPROXY=off GOSUMDB=off GOTOOLCHAIN=local go1.26.8 vet -tags verif ./... ",
 "hooks": {
   "guard": "verif",
   "enable": "go1.26.8 test -tags verif (harness module /verif/harness with replace github.com/enfein/mieru/v3 => /repo)",
   "baseline_off_cmd": "cd /repo && GOFLAGS=-mod=mod GOPROXY=off GOSUMDB=off go test -vet=off -count=1 -timeout 25m ./...",
   "source_commits": [],
   "add_only": True,
 },
 "engines": [
   {"name": "tlc", "path": "/verif/lib/vlib.py", "serves_properties": sorted(CHECKS), "kind_free_text": "TLC 1.8 model checker: exhaustive design check, behaviour generation, trace validation"},
   {"name": "harness", "path": "/verif/harness", "serves_properties": sorted(CHECKS), "kind_free_text": "Go drivers (go1.26.8, testing/synctest) that replay model behaviours into the real code and record traces from it"},
 ],
 "checks": [],
 "not_applicable": [],
 "notes": "Family: model-based verification with explicit TLA+ specifications (spec/*.tla) bound to the code by behaviour replay and trace validation. See DESIGN.md.",
}
for pid in ids:
    if pid in CHECKS:
        c = CHECKS[pid]
        m["checks"].append({
          "property_id": pid,
          "quick_cmd": "./check %s --tier quick" % pid,
          "thorough_cmd": "./check %s --tier thorough" % pid,
          "evidence_file": "/verif/evidence/%s.json" % pid,
          "replay_cmd_template": "./check %s --replay {path}" % pid,
          "engine": "tlc+harness",
          "level_claimed": {"category": c["category"], "text": c["text"], "design_ref": c["design"]},
          "level_note": c["note"],
          "technique": c["technique"],
        })
    else:
        m["not_applicable"].append({"property_id": pid, "reason": PENDING})
json.dump(m, open(os.path.join(HERE, "MANIFEST.json"), "w"), indent=1)
print("MANIFEST.json: %d checks, %d not_applicable" % (len(m["checks"]), len(m["not_applicable"])))
