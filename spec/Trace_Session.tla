--------------------------- MODULE Trace_Session ---------------------------
(***************************************************************************)
(* Property monitor for executions RECORDED FROM THE REAL CODE: a real      *)
(* client mux and a real server mux on a simulated network (harness/        *)
(* sessrun).  One trace line = one observable event:                        *)
(*   Cfg   scenario parameters                                              *)
(*   Wb/W  application Write begins / returned  (ep, s, n accepted)         *)
(*   R     application Read returned (n bytes, ok = bytes equal the          *)
(*         position-keyed keystream, err class)                             *)
(*   Cb/Cr application Close begins / returned                              *)
(*   Tx    a segment put on the wire by ep, decoded by the independent      *)
(*         reference codec (type, seq, unAck, window, fragment, lengths,     *)
(*         padding, payload digest and stream offset, transmission number,   *)
(*         network fate)                                                    *)
(*   Rx    a datagram handed by the network to ep's socket (UDP)             *)
(*   End   both muxes closed                                                *)
(* Each event has exactly one successor state, so validation is linear.     *)
(* The invariants are the listed properties C01 C02 C03 C09 C13 C14 C16      *)
(* evaluated after every event.                                             *)
(***************************************************************************)
EXTENDS Integers, Sequences, FiniteSets, TLC, Json, IOUtils

Trace == ndJsonDeserialize(IOEnv.VERIF_TRACE)

Eps == {"C", "S"}
MaxS == 8
Keys == Eps \X (0..(MaxS - 1))
Peer(ep) == IF ep = "C" THEN "S" ELSE "C"
PeerK(k) == <<Peer(k[1]), k[2]>>

SessionTypes == {2, 3, 4, 5}
DataTypes == {6, 7, 10, 11}
AckTypes == {8, 9}
CloseTypes == {4, 5}
SeqTypes == {2, 3} \cup DataTypes       \* segments that occupy a place in the ordered stream

VARIABLES l,        \* next trace line
          cfg,      \* scenario parameters
          wBegun, wDone,   \* bytes offered to / accepted by Write, per writer endpoint
          closing,         \* application Close has begun at this endpoint
          rTotal,          \* bytes returned by Read, per reader endpoint
          nextSeq,         \* next first-transmission sequence number expected from this sender
          txOff,           \* stream offset the next new data segment must carry
          first,           \* per sender: sequence of <<pt, frag, dig, plen>> of first transmissions
          contig, ahead,   \* per receiver: delivered seqs = 0..contig-1 plus `ahead`
          pat,             \* per endpoint: nonce pattern and low-entropy setting in effect
          cle,             \* per session: the client has emitted low-entropy data
          cseq,            \* per sender (UDP): the <<seq, type>> of every close request / response it has emitted
          last             \* the event just consumed, plus the pre-state facts its property needs

vars == <<l, cfg, wBegun, wDone, closing, rTotal, nextSeq, txOff, first, contig, ahead, pat, cle, cseq, last>>

Zero == [k \in Keys |-> 0]
NoCfg == [transport |-> "", mtu |-> 0, cmid |-> 255, cend |-> 255, smid |-> 255, send |-> 255,
          clean |-> TRUE, tampers |-> 0, ns |-> 0, complete |-> FALSE]
Idle == [ev |-> "none"]
NoPat == [type |-> 0, min |-> 0, max |-> 0, apply |-> 0, mode |-> 0, rot |-> 0, nfixed |-> 0, tcpfrag |-> FALSE]

Reset == /\ cfg' = NoCfg
         /\ wBegun' = Zero /\ wDone' = Zero /\ rTotal' = Zero
         /\ closing' = [k \in Keys |-> FALSE]
         /\ nextSeq' = Zero /\ txOff' = Zero
         /\ first' = [k \in Keys |-> <<>>]
         /\ contig' = Zero /\ ahead' = [k \in Keys |-> {}]
         /\ pat' = [e \in Eps |-> NoPat] /\ cle' = [s \in 0..(MaxS - 1) |-> FALSE] /\ cseq' = [k \in Keys |-> {}]

Init == /\ l = 1
        /\ cfg = NoCfg /\ wBegun = Zero /\ wDone = Zero /\ rTotal = Zero
        /\ closing = [k \in Keys |-> FALSE] /\ nextSeq = Zero /\ txOff = Zero
        /\ first = [k \in Keys |-> <<>>] /\ contig = Zero /\ ahead = [k \in Keys |-> {}]
        /\ pat = [e \in Eps |-> NoPat] /\ cle = [s \in 0..(MaxS - 1) |-> FALSE] /\ cseq = [k \in Keys |-> {}]
        /\ last = Idle

E == Trace[l]
K(e) == <<e.ep, e.s>>
Known(e) == e.s >= 0 /\ e.s < MaxS /\ e.ep \in Eps

(* advance the contiguous-delivery frontier *)
RECURSIVE Advance(_, _)
Advance(c, a) == IF c \in a THEN Advance(c + 1, a \ {c}) ELSE <<c, a>>

Begin == /\ E.ev = "Begin" /\ Reset /\ last' = [ev |-> "Begin", id |-> E.err]

Cfg == /\ E.ev = "Cfg"
       /\ cfg' = [transport |-> E.ep, mtu |-> E.wlen, cmid |-> E.pre, cend |-> E.suf, smid |-> E.a,
                  send |-> E.b, clean |-> E.ok, tampers |-> E.n, ns |-> E.s, complete |-> (E.fate = "complete")]
       /\ last' = [ev |-> "Cfg"]
       /\ UNCHANGED <<wBegun, wDone, closing, rTotal, nextSeq, txOff, first, contig, ahead, pat, cle, cseq>>

Pat == /\ E.ev = "Pat" /\ E.ep \in Eps
       /\ pat' = [pat EXCEPT ![E.ep] = [type |-> E.pt, min |-> E.n, max |-> E.a, apply |-> E.b, mode |-> E.win,
                                          rot |-> E.frag, nfixed |-> E.plen, tcpfrag |-> E.ok]]
       /\ last' = [ev |-> "Pat"]
       /\ UNCHANGED <<cfg, wBegun, wDone, closing, rTotal, nextSeq, txOff, first, contig, ahead, cle, cseq>>

WriteBegin == /\ E.ev = "Wb" /\ Known(E)
              /\ wBegun' = [wBegun EXCEPT ![K(E)] = @ + E.n]
              /\ last' = [ev |-> "Wb"]
              /\ UNCHANGED <<cfg, wDone, closing, rTotal, nextSeq, txOff, first, contig, ahead, pat, cle, cseq>>

WriteRet == /\ E.ev = "W" /\ Known(E)
            /\ wDone' = [wDone EXCEPT ![K(E)] = @ + E.n]
            \* bytes offered but not accepted are no longer "in progress"
            /\ wBegun' = [wBegun EXCEPT ![K(E)] = @ - (E.a - E.n)]
            /\ last' = [ev |-> "W", k |-> K(E), n |-> E.n, err |-> E.err]
            /\ UNCHANGED <<cfg, closing, rTotal, nextSeq, txOff, first, contig, ahead, pat, cle, cseq>>

ReadRet == /\ E.ev = "R" /\ Known(E)
           /\ rTotal' = [rTotal EXCEPT ![K(E)] = @ + E.n]
           /\ last' = [ev |-> "R", k |-> K(E), n |-> E.n, ok |-> E.ok, err |-> E.err, off |-> E.off,
                       posOK |-> (E.off = rTotal[K(E)]),
                       selfClosing |-> closing[K(E)], peerClosing |-> closing[PeerK(K(E))],
                       peerDone |-> wDone[PeerK(K(E))], peerBegun |-> wBegun[PeerK(K(E))],
                       total |-> rTotal[K(E)] + E.n]
           /\ UNCHANGED <<cfg, wBegun, wDone, closing, nextSeq, txOff, first, contig, ahead, pat, cle, cseq>>

CloseBegin == /\ E.ev = "Cb" /\ Known(E)
              /\ closing' = [closing EXCEPT ![K(E)] = TRUE]
              /\ last' = [ev |-> "Cb"]
              /\ UNCHANGED <<cfg, wBegun, wDone, rTotal, nextSeq, txOff, first, contig, ahead, pat, cle, cseq>>

CloseRet == /\ E.ev = "Cr"
            /\ last' = [ev |-> "Cr", ms |-> E.n]
            /\ UNCHANGED <<cfg, wBegun, wDone, closing, rTotal, nextSeq, txOff, first, contig, ahead, pat, cle, cseq>>

(* A segment on the wire.  Unknown session (s = -1): only the size and
   decodability obligations apply. *)
Tx == /\ E.ev = "Tx"
      /\ LET k == K(E)
             known == Known(E) /\ E.err = ""
             isSeq == E.pt \in SeqTypes
             isNew == known /\ isSeq /\ E.seq >= nextSeq[k]
             isRetx == known /\ isSeq /\ E.seq < nextSeq[k]
             sig == <<E.pt, E.frag, E.dig, E.plen>>
             isClose == known /\ cfg.transport = "udp" /\ E.pt \in {4, 5} /\ E.seq >= 0 /\ E.seq < 2000000000
         IN
         /\ nextSeq' = IF isNew THEN [nextSeq EXCEPT ![k] = E.seq + 1] ELSE nextSeq
         /\ txOff' = IF isNew THEN [txOff EXCEPT ![k] = @ + E.plen] ELSE txOff
         /\ first' = IF isNew THEN [first EXCEPT ![k] = Append(@, sig)] ELSE first
         /\ last' = [ev |-> "Tx", ep |-> E.ep, known |-> known, pt |-> E.pt, decodable |-> (E.err = ""),
                     wlen |-> E.wlen, plen |-> E.plen, pre |-> E.pre, suf |-> E.suf, fieldLen |-> E.b,
                     isNew |-> isNew, isRetx |-> isRetx,
                     dense |-> (~isNew \/ E.seq = nextSeq[k] \/ cseq[k] # {}),   \* close segments take sequence numbers this monitor does not count
                     closeUnique |-> (~isClose \/ \A c \in cseq[k] : c[1] = E.seq => c[2] = E.pt),
                     offOK |-> (~isNew \/ (E.off = txOff[k] /\ E.ok)),
                     same |-> (~isRetx \/ (E.seq + 1 <= Len(first[k]) /\ first[k][E.seq + 1] = sig)),
                     hasAck |-> (known /\ E.pt \in (DataTypes \cup AckTypes)),
                     una |-> E.una, contig |-> (IF known THEN contig[k] ELSE 0),
                     npp |-> E.npp, nps |-> E.nps, nfx |-> E.nfx,
                     clientUsedLE |-> (IF Known(E) THEN cle[E.s] ELSE FALSE)]
      /\ cle' = IF Known(E) /\ E.ep = "C" /\ E.pt = 10 THEN [cle EXCEPT ![E.s] = TRUE] ELSE cle
      /\ cseq' = IF Known(E) /\ E.err = "" /\ cfg.transport = "udp" /\ E.pt \in {4, 5} /\ E.seq >= 0 /\ E.seq < 2000000000
                 THEN [cseq EXCEPT ![K(E)] = @ \cup {<<E.seq, E.pt>>}] ELSE cseq
      /\ UNCHANGED <<cfg, wBegun, wDone, closing, rTotal, contig, ahead, pat>>

Rx == /\ E.ev = "Rx"
      /\ IF Known(E) /\ E.pt \in SeqTypes /\ E.seq >= contig[K(E)]
         THEN LET r == Advance(contig[K(E)], ahead[K(E)] \cup {E.seq})
              IN /\ contig' = [contig EXCEPT ![K(E)] = r[1]]
                 /\ ahead' = [ahead EXCEPT ![K(E)] = r[2]]
         ELSE UNCHANGED <<contig, ahead, pat, cle, cseq>>
      /\ last' = [ev |-> "Rx"]
      /\ UNCHANGED <<cfg, wBegun, wDone, closing, rTotal, nextSeq, txOff, first, pat, cle, cseq>>

End == /\ E.ev = "End"
       /\ last' = [ev |-> "End", ok |-> E.ok, ms |-> E.n,
                   allRead |-> \A k \in Keys : k[2] < cfg.ns => rTotal[k] = wDone[PeerK(k)]]
       /\ UNCHANGED <<cfg, wBegun, wDone, closing, rTotal, nextSeq, txOff, first, contig, ahead, pat, cle, cseq>>

Mark == /\ E.ev = "Mark"
        /\ last' = [ev |-> "Mark", ok |-> E.ok, bound |-> E.n]
        /\ UNCHANGED <<cfg, wBegun, wDone, closing, rTotal, nextSeq, txOff, first, contig, ahead, pat, cle, cseq>>

Other == /\ E.ev \notin {"Begin", "Cfg", "Wb", "W", "R", "Cb", "Cr", "Tx", "Rx", "End", "Mark", "Pat"}
         /\ last' = [ev |-> E.ev]
         /\ UNCHANGED <<cfg, wBegun, wDone, closing, rTotal, nextSeq, txOff, first, contig, ahead, pat, cle, cseq>>
\* events about unknown sessions (s = -1) that are not Tx
Unattributed == /\ E.ev \in {"Wb", "W", "R", "Cb"} /\ ~Known(E)
                /\ last' = [ev |-> "unattributed", what |-> E.ev, n |-> E.n, err |-> E.err]
                /\ UNCHANGED <<cfg, wBegun, wDone, closing, rTotal, nextSeq, txOff, first, contig, ahead, pat, cle, cseq>>

Next == /\ l <= Len(Trace)
        /\ l' = l + 1
        /\ (Begin \/ Cfg \/ WriteBegin \/ WriteRet \/ ReadRet \/ CloseBegin \/ CloseRet \/ Tx \/ Rx \/ End \/ Mark \/ Pat
            \/ Other \/ Unattributed)

Spec == Init /\ [][Next]_vars

---------------------------------------------------------------------------
(* The properties, on the event just consumed. *)

\* C01 / C02 / C04: every byte read equals the byte written at that position; never more than was written
ReadExact == last.ev = "R" =>
               /\ last.ok /\ last.posOK
               /\ last.total <= last.peerBegun

\* C03: a clean end-of-stream is observed only after everything the closing peer's successful writes accepted
CloseNoTrunc == (last.ev = "R" /\ last.err = "EOF" /\ ~last.selfClosing /\ cfg.tampers = 0 /\ last.peerClosing)
                   => last.total = last.peerDone

\* C02 ("the connection is not abandoned"): end-of-stream only if somebody closed
NoSpuriousEOF == (last.ev = "R" /\ last.err = "EOF" /\ cfg.tampers = 0)
                   => (last.selfClosing \/ last.peerClosing)

\* C09 (a): everything emitted decodes with the reference codec
Decodable == last.ev = "Tx" => last.decodable

\* C13
AckSound == (last.ev = "Tx" /\ last.hasAck /\ cfg.transport = "udp") => last.una <= last.contig
RetxSame == last.ev = "Tx" => last.same
SeqDense == last.ev = "Tx" => last.dense
\* C13: a sequence number is never used for two different close segments (request vs response)
CloseSeqUnique == last.ev = "Tx" => last.closeUnique
\* C01/C02 on the wire: new data continues the stream exactly where the previous segment ended
TxContiguous == last.ev = "Tx" => last.offOK

\* C14
FitsMTU == (last.ev = "Tx" /\ cfg.transport = "udp") => last.wlen <= cfg.mtu
FitsFields == last.ev = "Tx" /\ last.decodable =>
                /\ last.fieldLen <= 65535
                /\ (last.pt \in SessionTypes => last.plen <= 1024)
                /\ last.plen <= 32768

\* C16: explicit padding maxima are honoured
PadOK == (last.ev = "Tx" /\ last.decodable) =>
           LET mid == IF last.ep = "C" THEN cfg.cmid ELSE cfg.smid
               end == IF last.ep = "C" THEN cfg.cend ELSE cfg.send
           IN /\ last.suf <= end
              /\ (last.pt \notin SessionTypes => last.pre <= mid)

\* C16: the nonce prefix exhibits the configured type (where the pattern must have been applied:
\* the single nonce of a TCP direction, every UDP datagram when applyToAllUDPPacket)
NonceOK == (last.ev = "Tx" /\ last.decodable /\ last.npp >= 0 /\ (cfg.transport = "tcp" \/ pat[last.ep].apply = 1)) =>
             LET p == pat[last.ep] IN
             /\ (p.type = 1 => last.npp >= p.min)
             /\ (p.type = 2 => last.nps >= p.min)
             /\ ((p.type = 3 /\ p.nfixed > 0) => last.nfx = 1)

\* C16: each side uses low entropy per its own setting; a server only toward a client that used it first
LEOK == (last.ev = "Tx" /\ last.decodable /\ last.known /\ last.pt \in DataTypes) =>
          /\ (last.ep = "C" => ((last.pt = 10) <=> (pat["C"].mode # 0)))
          /\ (last.ep = "S" /\ last.pt = 11 => (pat["S"].mode # 0 /\ last.clientUsedLE))
          /\ (last.ep = "S" /\ last.pt = 7 /\ pat["S"].mode # 0 => TRUE)

\* C02 progress / completion, when the scenario expects it
Completes == (last.ev = "End" /\ cfg.complete) => (last.ok /\ last.allRead)

\* C02 progress: a programme point that must be reached within a virtual-time bound was reached in time
OnTime == last.ev = "Mark" => last.ok

\* nothing of a session we cannot attribute may be delivered to an application
Attributed == last.ev = "unattributed" => (last.what = "R" /\ last.n = 0)

TraceAccepted == TLCGet("stats").diameter - 1 = Len(Trace)
=============================================================================
