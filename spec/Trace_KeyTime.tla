----------------------------- MODULE Trace_KeyTime -----------------------------
(* Validates handshakes between a REAL client at virtual second tc and a REAL server at tc+d (possibly after the client's key  *)
(* cache was warmed a few seconds earlier): accept/reject, and which slot's key the client really used.                        *)
EXTENDS Integers, Sequences, TLC, Json, IOUtils
CONSTANT CacheChecksEpoch
VARIABLES l, x, entry, used
KT == INSTANCE KeyTime
Trace == ndJsonDeserialize(IOEnv.VERIF_TRACE)
Init == l = 1 /\ x = 0 /\ entry = KT!NoEntry /\ used = [slot |-> 0, now |-> 0]
Next == l <= Len(Trace) /\ l' = l + 1 /\ UNCHANGED <<x, entry, used>>
Spec == Init /\ [][Next]_<<l, x, entry, used>>
R == Trace[l - 1]
Seen == l > 1

\* C08: the client's key is the one of ITS current slot (cached material is never used for another slot), its stamp is its minute
ClientUsesOwnSlot == Seen => (R.produced /\ R.keyslot = 1 /\ R.stampdiff = 0)
\* clocks within a minute always agree
Agree == (Seen /\ R.d >= -60 /\ R.d <= 60) => R.real
\* stale segments are refused
StaleStampRefused == (Seen /\ KT!Abs(KT!Minute(R.tc) - KT!Minute(R.tc + R.d)) >= 2) => ~R.real
StaleKeyRefused == (Seen /\ KT!Abs(R.d) >= 240) => ~R.real
\* conformance with the slot / minute arithmetic of the specification
Conforms == Seen => (R.real = KT!Accept(R.tc, R.tc + R.d))
TraceAccepted == TLCGet("stats").diameter - 1 = Len(Trace)
=============================================================================
