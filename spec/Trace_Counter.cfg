SPECIFICATION Spec
INVARIANTS Conserved Ordered WindowsOK SnapshotStable QuotaBinds QuotaSpares CountedOnce
POSTCONDITION TraceAccepted
CHECK_DEADLOCK FALSE
