SPECIFICATION Spec
INVARIANTS DialSucceeds LandsOnOpen SessionsKeepTheirUnderlay
POSTCONDITION TraceAccepted
CHECK_DEADLOCK FALSE
