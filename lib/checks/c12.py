"""C12 - loopback and private destinations are refused unless the user is allowed.

design spec   spec/Egress.tla: destination classes (loopback/private boundaries in IPv4, IPv6, IPv4-mapped form,
              unspecified addresses, empty host, well-known local names in three letter cases, public neighbours) x
              users x commands x ordered rule lists; TLC checks GateHolds / Unaffected / FirstWins and exports the table
spec -> code  (a) every table row x concrete encodings -> raw SOCKS5 request -> real Server.FindAction
              (b) effect runs: a real socks5.Server in server role with TCP/UDP listeners on every local address
                  (incl. a stand-in private address when the sandbox allows it): reply code, connections and
                  relayed datagrams that arrived
code -> spec  TLC validates every record (Trace_Egress: GateReal, UnaffectedReal, NoLocalConnect, NoLocalRelay)
"""
import json
import os
import random
import re
import shutil

import vlib
from vlib import Inconclusive

PROPS = ("GateReal", "UnaffectedReal", "NoLocalConnect", "NoLocalRelay", "AllowedGetThrough")


def signature(inv, r):
    c = r.get("c", "")
    if inv in ("GateReal", "NoLocalConnect"):
        if c in ("localNameUpper", "localNameMixed"):
            return "C12:local-name-not-lower-case"
        if c in ("unspec4", "unspec6"):
            return "C12:unspecified-address"
        if c == "emptyDomain":
            return "C12:empty-host"
    if inv == "NoLocalRelay":
        return "C12:udp-association-relays-to-any-header-address"
    return "C12:%s:%s" % (inv, c)


def validate(ctx, path, wd, what):
    remaining = path
    for attempt in range(40):
        r = vlib.tlc("Trace_Egress", workers=1, timeout=2400, env={"VERIF_TRACE": remaining}, keep_out=True, heap="12g")
        if r.violated in PROPS:
            m = re.findall(r"/\\ l = (\d+)", r.trace[-1] if r.trace else "")
            line = int(m[-1]) - 1 if m else 1
            cur = vlib.read_ndjson(remaining)
            bad = cur[line - 1]
            sig = signature(r.violated, bad)
            rp = ctx.save_replay("%s_%s_%d.json" % (what, r.violated, attempt), bad)
            ctx.report("%s: %s" % (r.violated, {k: v for k, v in bad.items() if k != "rules"}), rp, sig)
            # skip every later record with the same signature so that different violations are still found
            rest = [x for x in cur[line:] if signature(r.violated, x) != sig or not still_violates(r.violated, x)]
            if not rest:
                return
            remaining = os.path.join(wd, "%s.rest%d.ndjson" % (what, attempt))
            vlib.write_ndjson(remaining, rest)
            continue
        if r.violated or r.error or not r.finished:
            raise Inconclusive("Trace_Egress: %s %s\n%s" % (r.violated, r.error, r.out[-1500:]))
        ctx.coverage["states"] += r.distinct
        ctx.coverage["traces_validated_against_impl"] += r.distinct - 1
        return


LOOP = {"loop4", "loop4lo", "loop4hi", "loop6", "mappedLoop", "unspec4", "unspec6", "emptyDomain", "localNameLower", "localNameUpper", "localNameMixed"}
PRIV = {"priv10lo", "priv10hi", "priv172lo", "priv172hi", "priv192lo", "priv192hi", "priv6lo", "priv6hi", "mappedPriv"}


def still_violates(inv, x):
    """cheap python re-evaluation of the same invariant, used only to skip records already explained"""
    c, u = x.get("c"), x.get("u")
    forbidden = (c in LOOP and u not in ("allowLoopback", "both")) or (c in PRIV and u not in ("allowPrivate", "both"))
    if inv == "GateReal":
        return x.get("ev") == "decide" and forbidden and x.get("real") != "REJECT"
    if inv == "NoLocalConnect":
        return x.get("ev") == "effect" and x.get("cmd") == "connect" and forbidden and (x.get("tcphit") or x.get("reply") != 2)
    if inv == "NoLocalRelay":
        return x.get("ev") == "effect" and x.get("cmd") == "associate" and forbidden and x.get("udphit")
    return True


def run(ctx):
    ctx.level = "model_checking"
    ctx.coverage["rule"] = ("all (class, user, command, rule list) rows of Egress.tla x concrete encodings through the real "
                            "FindAction; effect runs for every class x user x command. distinct_nontrivial = rows whose "
                            "destination is local-ish or matched by a rule")
    ctx.assumptions += ["real-time runs on loopback sockets; private-network effects need `ip addr add 10.99.0.1/32 dev lo` (root); "
                        "if that fails the private classes are covered by the decision binding only"]
    wd = vlib.scratch_dir("verif-c12-")
    try:
        res = vlib.tlc("MC_Egress", timeout=900, tags=("TABLE",))
        if res.violated or res.error or not res.prints:
            raise Inconclusive("Egress model: %s %s\n%s" % (res.violated, res.error, res.out[-1500:]))
        tab = res.prints[0][1]
        ctx.coverage["states"] += 1
        ctx.coverage["transitions"] += len(tab["decide"])
        ctx.coverage.setdefault("tlc_runs", []).append({"what": "Egress GateHolds/Unaffected/FirstWins over %d rows" % len(tab["decide"]),
                                                       "wall_s": round(res.wall, 1)})
        rnd = random.Random(ctx.seed)
        rows = tab["decide"]
        if not ctx.thorough():
            # every (class, user, command) with the empty list, every single-rule list, and a seeded sample of two-rule lists
            rows = [r for r in rows if len(r["rules"]) == 0 or (len(r["rules"]) == 1 and r["cmd"] == "connect")
                    or (len(r["rules"]) == 2 and rnd.random() < 0.04)]
        din, dout = os.path.join(wd, "rows.ndjson"), os.path.join(wd, "decide.ndjson")
        vlib.write_ndjson(din, rows)
        rc, log, _ = vlib.go_test("./c12/", "TestDecisions$", env={"VERIF_IN": din, "VERIF_OUT": dout,
                                                                    "VERIF_VARIANTS": 2 if not ctx.thorough() else 8}, timeout=2400)
        if rc != 0 or not os.path.exists(dout):
            raise Inconclusive("driver TestDecisions failed:\n" + log[-3000:])
        got = vlib.read_ndjson(dout)
        ctx.coverage["evaluations"] += len(got)
        ctx.coverage["distinct_nontrivial"] += sum(1 for r in got if r["c"] in LOOP or r["c"] in PRIV or r["rules"])
        ctx.sample({"kind": "decision record", "record": got[len(got) // 2]})
        validate(ctx, dout, wd, "decide")
        effects = [{"c": r["c"], "u": r["u"], "cmd": cmd, "variant": v} for r in tab["relay"] for cmd in ("connect", "associate")
                   for v in range(1 if not ctx.thorough() else 4)
                   if r["c"] in LOOP or r["c"] in ("priv10lo", "priv10hi", "mappedPriv")]
        ein, eout = os.path.join(wd, "effects.ndjson"), os.path.join(wd, "effect.ndjson")
        vlib.write_ndjson(ein, effects)
        rc, log, _ = vlib.go_test("./c12/", "TestEffects$", env={"VERIF_IN": ein, "VERIF_OUT": eout}, timeout=2400)
        if rc != 0 or not os.path.exists(eout):
            raise Inconclusive("driver TestEffects failed:\n" + log[-3000:])
        eg = vlib.read_ndjson(eout)
        if len(eg) != len(effects):
            raise Inconclusive("effect driver ran %d of %d cases" % (len(eg), len(effects)))
        ctx.coverage["evaluations"] += len(eg)
        ctx.coverage["distinct_nontrivial"] += len(eg)
        ctx.coverage["private_alias_available"] = any(x["reachable"] for x in eg if x["c"].startswith("priv"))
        ctx.sample({"kind": "effect record", "record": eg[0]})
        validate(ctx, eout, wd, "effect")
    finally:
        shutil.rmtree(wd, ignore_errors=True)


def replay(ctx, path):
    print(json.load(open(path)))
