------------------------------- MODULE Wire -------------------------------
(***************************************************************************)
(* Transcription of docs/protocol.md as data and rules.  The reference     *)
(* codec (harness/refcodec) loads the JSON this module exports, so the     *)
(* numeric parameters of the independent implementation come from the      *)
(* specification, not from the mieru sources.                              *)
(***************************************************************************)
EXTENDS Integers, Sequences, FiniteSets, TLC, Json

MetaLen == 32
NonceLen == 24
TagLen == 16
HintInLen == 16      \* first 16 nonce bytes are hashed with the user name
HintOutLen == 4      \* last 4 nonce bytes carry the hint
KeyIter == 64
KeyLen == 32
SlotSeconds == 120   \* "rounded to the nearest 2 minutes"
StampSeconds == 60   \* timestamp = minutes since the epoch
MaxSessionPayload == 1024
MaxStreamFragment == 32768
MaxPadding == 255    \* 8-bit prefix/suffix length fields
ChunkLen == 8        \* low entropy chunk

\* protocol type numbering
Types == [openSessionRequest |-> 2, openSessionResponse |-> 3,
          closeSessionRequest |-> 4, closeSessionResponse |-> 5,
          dataClientToServer |-> 6, dataServerToClient |-> 7,
          ackClientToServer |-> 8, ackServerToClient |-> 9,
          dataClientToServerLowEntropy |-> 10, dataServerToClientLowEntropy |-> 11]

SessionTypes == {2, 3, 4, 5}
DataAckTypes == {6, 7, 8, 9}
LowEntropyTypes == {10, 11}
ClientToServer == {2, 4, 5, 6, 8, 10}
ServerToClient == {3, 4, 5, 7, 9, 11}

F(n, o, l) == [name |-> n, off |-> o, len |-> l]

SessionLayout == << F("type", 0, 1), F("unused1", 1, 1), F("timestamp", 2, 4), F("sessionID", 6, 4),
                    F("seq", 10, 4), F("status", 14, 1), F("payloadLen", 15, 2), F("suffixLen", 17, 1),
                    F("unused2", 18, 14) >>

DataLayout == << F("type", 0, 1), F("unused1", 1, 1), F("timestamp", 2, 4), F("sessionID", 6, 4),
                 F("seq", 10, 4), F("unAckSeq", 14, 4), F("windowSize", 18, 2), F("fragment", 20, 1),
                 F("prefixLen", 21, 1), F("payloadLen", 22, 2), F("suffixLen", 24, 1), F("unused2", 25, 7) >>

LowEntropyLayout == << F("type", 0, 1), F("lowEntropyMode", 1, 1), F("timestamp", 2, 4), F("sessionID", 6, 4),
                       F("seq", 10, 4), F("unAckSeq", 14, 4), F("windowSize", 18, 2), F("fragment", 20, 1),
                       F("prefixLen", 21, 1), F("payloadLen", 22, 2), F("suffixLen", 24, 1),
                       F("lowEntropyMask", 25, 4), F("extractedPayloadLen", 29, 2), F("lowEntropyMaskRotation", 31, 1) >>

\* low entropy modes: mode -> [C source bytes, ones in half mask]
LEModes == [m \in 1..4 |-> [c |-> m + 3, ones |-> 4 * (m + 3)]]
ValidRotation(r) == r = 0 \/ r \in 1..15 \/ (r \in 16..240 /\ r % 16 = 0)

Layouts == <<SessionLayout, DataLayout, LowEntropyLayout>>

---------------------------------------------------------------------------
\* Internal consistency of the transcription (checked by TLC as ASSUMEs).
Tiles(L) == /\ L[1].off = 0
            /\ \A k \in 1..(Len(L) - 1) : L[k].off + L[k].len = L[k + 1].off
            /\ L[Len(L)].off + L[Len(L)].len = MetaLen
            /\ \A k \in 1..Len(L) : L[k].len > 0

RangeOf(f) == {f[k] : k \in DOMAIN f}
TypeVals == RangeOf(Types)

ASSUME \A k \in 1..3 : Tiles(Layouts[k])
ASSUME Cardinality(TypeVals) = Cardinality(DOMAIN Types)             \* numbering injective
ASSUME TypeVals = SessionTypes \cup DataAckTypes \cup LowEntropyTypes
ASSUME ClientToServer \cup ServerToClient = TypeVals
ASSUME MaxSessionPayload < 65536 /\ MaxStreamFragment <= 65535
ASSUME \A m \in 1..4 : LEModes[m].ones = 4 * LEModes[m].c /\ LEModes[m].c \in 4..7
\* the shared prefix of the three layouts is identical (a decoder can read
\* type, timestamp, session id and seq before knowing the layout)
ASSUME \A k \in {1, 3, 4, 5} : SessionLayout[k] = DataLayout[k] /\ DataLayout[k] = LowEntropyLayout[k]
ASSUME \A k \in 5..11 : DataLayout[k] = LowEntropyLayout[k]

\* size arithmetic (C14)
PacketOverhead == NonceLen + MetaLen + 2 * TagLen
EncLen(n, mode) == IF mode = 0 THEN n ELSE ((n + LEModes[mode].c - 1) \div LEModes[mode].c) * ChunkLen
Min(a, b) == IF a < b THEN a ELSE b
Max(a, b) == IF a > b THEN a ELSE b
\* largest plaintext fragment of a data datagram
UdpFragment(mtu, mode) ==
  IF mode = 0 THEN Max(0, mtu - PacketOverhead)
  ELSE ((mtu - PacketOverhead) \div ChunkLen) * LEModes[mode].c
StreamFragment(mode) ==
  IF mode = 0 THEN MaxStreamFragment
  ELSE Min(MaxStreamFragment, (65535 \div ChunkLen) * LEModes[mode].c)

Export ==
  [metaLen |-> MetaLen, nonceLen |-> NonceLen, tagLen |-> TagLen, hintInLen |-> HintInLen,
   hintOutLen |-> HintOutLen, keyIter |-> KeyIter, keyLen |-> KeyLen, slotSeconds |-> SlotSeconds,
   stampSeconds |-> StampSeconds, maxSessionPayload |-> MaxSessionPayload,
   maxStreamFragment |-> MaxStreamFragment, maxPadding |-> MaxPadding, chunkLen |-> ChunkLen,
   types |-> Types, session |-> SessionLayout, data |-> DataLayout, lowEntropy |-> LowEntropyLayout,
   leModes |-> [m \in 1..4 |-> LEModes[m]],
   streamFragment |-> [m \in 1..5 |-> StreamFragment(m - 1)]]

ASSUME PrintT(<<"WIRE", ToJson(Export)>>)

VARIABLE x
Init == x = 0
Next == x' = x /\ FALSE
=============================================================================
