CONSTANTS
  MaxSteps = 5
  Persist = FALSE
SPECIFICATION Spec
INVARIANTS DeadlineBounds
CHECK_DEADLOCK FALSE
