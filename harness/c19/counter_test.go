// Binds spec/Counter.tla and spec/Quota.tla to pkg/metrics and to quota admission of real server sessions.
package c19

import (
	"bytes"
	"context"
	"encoding/json"
	"fmt"
	"io"
	"net"
	"strings"
	"sync"
	"testing"
	"testing/synctest"
	"time"

	"github.com/enfein/mieru/v3/pkg/appctl/appctlpb"
	"github.com/enfein/mieru/v3/pkg/common"
	"github.com/enfein/mieru/v3/pkg/log"
	"github.com/enfein/mieru/v3/pkg/metrics"
	pb "github.com/enfein/mieru/v3/pkg/metrics/metricspb"
	"github.com/enfein/mieru/v3/pkg/protocol"
	"google.golang.org/protobuf/proto"

	"verifharness/refcodec"
	"verifharness/simnet"
	"verifharness/vt"
)

var seq int

type ent [3]int64 // t (ms since start), delta, label

func flat(h []*pb.History, t0 int64) []ent {
	out := make([]ent, len(h))
	for i, e := range h {
		out[i] = ent{e.GetTimeUnixMilli() - t0, e.GetDelta(), int64(e.GetRollUp())}
	}
	return out
}

// TestCounterTraces records random histories of a real time-series counter in virtual time.
func TestCounterTraces(t *testing.T) {
	out := vt.MustCreate(t, "VERIF_OUT")
	defer out.Close()
	n := vt.EnvInt("VERIF_N", 40)
	length := vt.EnvInt("VERIF_LEN", 30)
	r := vt.Rand(19)
	steps := []int64{0, 0, 1, 1, 7, 999, 1000, 1001, 1999, 2000, 2001, 2500, 59999, 60000, 61000, 119999, 120000, 120001,
		3599999, 3600000, 7200001, 86399999, 86400000, 90000000, 691200001}
	for tr := 0; tr < n; tr++ {
		synctest.Test(t, func(t *testing.T) {
			seq++
			m := metrics.RegisterMetric(fmt.Sprintf("verif c19 %d %d", vt.Seed(), seq), "bytes", metrics.COUNTER_TIME_SERIES)
			c := m.(*metrics.Counter)
			t0 := time.Now().UnixMilli()
			ops := 0
			pre := 0
			out.Emit(map[string]any{"ev": "new", "dt": 0, "delta": 0, "pre": 0, "value": 0, "hist": []ent{}, "snapsum": 0, "snapvalue": 0, "rolled": false, "wins": [][3]int64{}})
			var snap *pb.Metric
			total := int64(0)
			for k := 0; k < length; k++ {
				dt := steps[r.Intn(len(steps))]
				if total+dt > 1700000000 { // keep relative times inside TLC's 32-bit integers
					dt = 0
				}
				total += dt
				delta := int64(1 + r.Intn(5000))
				if r.Intn(12) == 0 {
					delta = 0
				}
				time.Sleep(time.Duration(dt) * time.Millisecond)
				roll := r.Intn(3) == 0
				if roll {
					for (ops+1)%1000 != 0 {
						c.Name()
						ops++
						pre++
					}
				} else if (ops+1)%1000 == 0 {
					c.Name()
					ops++
					pre++
				}
				c.Add(delta)
				ops++
				thisPre := pre
				pre = 0
				// an earlier exported snapshot must still be consistent after this operation
				var snapSum, snapVal int64
				if snap != nil {
					for _, e := range snap.GetHistory() {
						snapSum += e.GetDelta()
					}
					snapVal = snap.GetValue()
				}
				snap = metrics.ToMetricPB(c) // 4 operations
				ops += 4
				pre += 4
				hist := flat(snap.GetHistory(), t0)
				// a few query windows (each DeltaBetween is one operation)
				now := time.Now()
				wins := [][3]int64{}
				for _, back := range []int64{0, 1, 1000, 2000, 60000, 3600000, 86400000, total} {
					t1 := now.Add(-time.Duration(back) * time.Millisecond)
					got := c.DeltaBetween(t1, now)
					ops++
					pre++
					wins = append(wins, [3]int64{t1.UnixMilli() - t0, now.UnixMilli() - t0, got})
				}
				out.Emit(map[string]any{"ev": "add", "dt": dt, "delta": delta, "pre": thisPre, "value": snap.GetValue(), "hist": hist,
					"snapsum": snapSum, "snapvalue": snapVal, "rolled": roll, "wins": wins})
			}
		})
	}
}

// ---- quota admission ---------------------------------------------------------

type qcase struct {
	Kind  string `json:"kind"`
	A     int    `json:"a"`
	Used  int    `json:"used"`
	Mib   int    `json:"mib"`
	Admit bool   `json:"admit"`
}

const pass = "verif-secret"

// TestQuota opens a session as a user whose counters hold the class's amount of traffic and observes admission.
func TestQuota(t *testing.T) {
	out := vt.MustCreate(t, "VERIF_OUT")
	defer out.Close()
	ci := 0
	vt.ReadLines(t, "VERIF_IN", func(line []byte) {
		var q qcase
		if err := json.Unmarshal(line, &q); err != nil {
			t.Fatalf("bad case: %v", err)
		}
		for _, trv := range []string{"tcp", "udp", "tcp+live", "udp+live"} {
			tr := strings.TrimSuffix(trv, "+live")
			live := strings.HasSuffix(trv, "+live")
			if live && !(q.Kind == "quota") {
				continue
			}
			ci++
			synctest.Test(t, func(t *testing.T) {
				me := fmt.Sprintf("c19u%d_%d", vt.Seed(), ci)
				other := me + "x"
				users := map[string]*appctlpb.User{}
				quota := []*appctlpb.Quota{{Days: proto.Int32(1), Megabytes: proto.Int32(int32(q.A))}}
				switch q.Kind {
				case "quota":
					users[me] = &appctlpb.User{Name: proto.String(me), Password: proto.String(pass), Quotas: quota}
				case "noquota":
					users[me] = &appctlpb.User{Name: proto.String(me), Password: proto.String(pass)}
				case "otherOver":
					users[me] = &appctlpb.User{Name: proto.String(me), Password: proto.String(pass)}
					users[other] = &appctlpb.User{Name: proto.String(other), Password: proto.String(pass), Quotas: quota}
				}
				bytesUsed := int64(q.Used) * 1048576 / int64(q.Mib)
				if q.Used%q.Mib == q.Mib-1 { // the class "one below the next MiB"
					bytesUsed = int64(q.Used/q.Mib+1)*1048576 - 1
				}
				victim := me
				if q.Kind == "otherOver" {
					victim = other
				}
				up := metrics.RegisterMetric(fmt.Sprintf(metrics.UserMetricGroupFormat, victim), metrics.UserMetricUploadBytes, metrics.COUNTER_TIME_SERIES)
				down := metrics.RegisterMetric(fmt.Sprintf(metrics.UserMetricGroupFormat, victim), metrics.UserMetricDownloadBytes, metrics.COUNTER_TIME_SERIES)
				if !live {
					up.Add(bytesUsed / 2)
					down.Add(bytesUsed - bytesUsed/2)
					time.Sleep(3 * time.Second)
				}

				pnet, snet := simnet.NewPacketNet(), simnet.NewStreamNet()
				smux := protocol.NewMux(false)
				smux.SetServerUsers(users)
				var addr net.Addr
				cmux := protocol.NewMux(true)
				cmux.SetClientUserNamePassword(me, refcodec.HashedPassword(me, pass))
				cmux.SetResolver(nilResolver{})
				cmux.SetClientMultiplexFactor(1000) // a second session reuses the live underlay
				if tr == "udp" {
					addr = &net.UDPAddr{IP: net.IPv4(10, 1, 0, 1), Port: 7000}
					smux.SetPacketListenerFactory(pnet)
					smux.SetEndpoints([]protocol.UnderlayProperties{protocol.NewUnderlayProperties(1400, common.PacketTransport, addr, nil)})
					cmux.SetPacketDialer(pnet.Dialer("10.2.0.1"))
					cmux.SetEndpoints([]protocol.UnderlayProperties{protocol.NewUnderlayProperties(1400, common.PacketTransport, nil, addr)})
				} else {
					addr = &net.TCPAddr{IP: net.IPv4(10, 1, 0, 1), Port: 7000}
					smux.SetStreamListenerFactory(snet)
					smux.SetEndpoints([]protocol.UnderlayProperties{protocol.NewUnderlayProperties(1400, common.StreamTransport, addr, nil)})
					cmux.SetDialer(snet.Dialer("10.2.0.1"))
					cmux.SetEndpoints([]protocol.UnderlayProperties{protocol.NewUnderlayProperties(1400, common.StreamTransport, nil, addr)})
				}
				if err := smux.Start(); err != nil {
					t.Fatalf("start: %v", err)
				}
				var mu sync.Mutex
				relayed := 0 // bytes the server application received
				accepted := 0
				go func() {
					for {
						c, err := smux.Accept()
						if err != nil {
							return
						}
						mu.Lock()
						accepted++
						mu.Unlock()
						go func() {
							buf := make([]byte, 4096)
							for {
								n, err := c.Read(buf)
								mu.Lock()
								relayed += n
								mu.Unlock()
								if n > 0 {
									c.Write(buf[:n])
								}
								if err != nil {
									c.Close()
									return
								}
							}
						}()
					}
				}()
				myUp := metrics.RegisterMetric(fmt.Sprintf(metrics.UserMetricGroupFormat, me), metrics.UserMetricUploadBytes, metrics.COUNTER_TIME_SERIES)
				myDown := metrics.RegisterMetric(fmt.Sprintf(metrics.UserMetricGroupFormat, me), metrics.UserMetricDownloadBytes, metrics.COUNTER_TIME_SERIES)
				var first net.Conn
				if live {
					// a session opened while the user is still within the allowance stays open; the traffic is
					// counted afterwards, then a second session is opened on the same underlay
					ctx, cancel := context.WithTimeout(context.Background(), 10*time.Second)
					c1, err := cmux.DialContext(ctx)
					cancel()
					if err == nil {
						first = c1
						c1.Write([]byte("0123456789"))
						b := make([]byte, 10)
						c1.SetReadDeadline(time.Now().Add(10 * time.Second))
						io.ReadFull(c1, b)
					}
					// the first session itself moved 10 bytes each way, which the server counted
					rest := bytesUsed - 20
					if rest < 0 {
						rest = 0
					}
					up.Add(rest / 2)
					down.Add(rest - rest/2)
					time.Sleep(3 * time.Second)
					mu.Lock()
					relayed = 0
					mu.Unlock()
				}
				up0, down0 := myUp.Load(), myDown.Load()
				ctx, cancel := context.WithTimeout(context.Background(), 10*time.Second)
				conn, err := cmux.DialContext(ctx)
				cancel()
				rec := map[string]any{"ev": "quota", "kind": q.Kind, "a": q.A, "used": q.Used, "mib": q.Mib, "admit": q.Admit, "transport": trv,
					"echoed": 0, "relayed": 0, "err": "", "bytes": bytesUsed, "upcount": 0, "downcount": 0}
				if err != nil {
					rec["err"] = "dial: " + err.Error()
				} else {
					msg := make([]byte, 700)
					for i := range msg {
						msg[i] = byte(i)
					}
					conn.Write(msg)
					got := 0
					buf := make([]byte, 4096)
					conn.SetReadDeadline(time.Now().Add(15 * time.Second))
					for got < len(msg) {
						n, err := conn.Read(buf)
						got += n
						if err != nil {
							if err != io.EOF {
								rec["err"] = "read: " + err.Error()
							} else {
								rec["err"] = "EOF"
							}
							break
						}
					}
					rec["echoed"] = got
					conn.Close()
				}
				time.Sleep(2 * time.Second)
				if first != nil {
					first.Close()
				}
				mu.Lock()
				rec["relayed"] = relayed
				mu.Unlock()
				rec["upcount"] = myUp.Load() - up0 // what the server counted for this user during the session
				rec["downcount"] = myDown.Load() - down0
				out.Emit(rec)
				cmux.Close()
				smux.Close()
				time.Sleep(150 * time.Second)
			})
		}
	})
}

type nilResolver struct{}

func (nilResolver) LookupIP(ctx context.Context, network, host string) ([]net.IP, error) {
	return []net.IP{net.ParseIP(host)}, nil
}

type slowSink struct{}

func (slowSink) Write(p []byte) (int, error) {
	if bytes.Contains(p, []byte("quota")) {
		time.Sleep(30 * time.Millisecond)
	}
	return len(p), nil
}

// TestQuotaRace opens sessions of a user who is over the allowance, in real time, while the server application reads
// each accepted session as eagerly as it can, and the server's log sink is slow: the refusal races with the application's Read.
func TestQuotaRace(t *testing.T) {
	out := vt.MustCreate(t, "VERIF_OUT")
	defer out.Close()
	// a slow log sink: the server logs the refusal at debug level while it is refusing
	log.SetLevel("DEBUG")
	log.SetOutput(slowSink{})
	defer log.SetLevel("INFO")
	defer log.SetOutput(io.Discard)
	trials := vt.EnvInt("VERIF_N", 150)
	for _, tr := range []string{"tcp", "udp"} {
		me := fmt.Sprintf("c19r%d_%s", vt.Seed(), tr)
		quota := []*appctlpb.Quota{{Days: proto.Int32(1), Megabytes: proto.Int32(1)}}
		users := map[string]*appctlpb.User{me: {Name: proto.String(me), Password: proto.String(pass), Quotas: quota}}
		up := metrics.RegisterMetric(fmt.Sprintf(metrics.UserMetricGroupFormat, me), metrics.UserMetricUploadBytes, metrics.COUNTER_TIME_SERIES)
		down := metrics.RegisterMetric(fmt.Sprintf(metrics.UserMetricGroupFormat, me), metrics.UserMetricDownloadBytes, metrics.COUNTER_TIME_SERIES)
		const bytesUsed = 3 * 1048576
		up.Add(bytesUsed / 2)
		down.Add(bytesUsed / 2)
		time.Sleep(2 * time.Second)

		pnet, snet := simnet.NewPacketNet(), simnet.NewStreamNet()
		smux := protocol.NewMux(false)
		smux.SetServerUsers(users)
		cmux := protocol.NewMux(true)
		cmux.SetClientUserNamePassword(me, refcodec.HashedPassword(me, pass))
		cmux.SetResolver(nilResolver{})
		cmux.SetClientMultiplexFactor(1000)
		var addr net.Addr
		if tr == "udp" {
			addr = &net.UDPAddr{IP: net.IPv4(10, 1, 0, 1), Port: 7000}
			smux.SetPacketListenerFactory(pnet)
			smux.SetEndpoints([]protocol.UnderlayProperties{protocol.NewUnderlayProperties(1400, common.PacketTransport, addr, nil)})
			cmux.SetPacketDialer(pnet.Dialer("10.2.0.1"))
			cmux.SetEndpoints([]protocol.UnderlayProperties{protocol.NewUnderlayProperties(1400, common.PacketTransport, nil, addr)})
		} else {
			addr = &net.TCPAddr{IP: net.IPv4(10, 1, 0, 1), Port: 7000}
			smux.SetStreamListenerFactory(snet)
			smux.SetEndpoints([]protocol.UnderlayProperties{protocol.NewUnderlayProperties(1400, common.StreamTransport, addr, nil)})
			cmux.SetDialer(snet.Dialer("10.2.0.1"))
			cmux.SetEndpoints([]protocol.UnderlayProperties{protocol.NewUnderlayProperties(1400, common.StreamTransport, nil, addr)})
		}
		if err := smux.Start(); err != nil {
			t.Fatalf("start: %v", err)
		}
		var mu sync.Mutex
		relayed := 0
		go func() {
			for {
				c, err := smux.Accept()
				if err != nil {
					return
				}
				go func() {
					buf := make([]byte, 4096)
					for {
						n, err := c.Read(buf)
						mu.Lock()
						relayed += n
						mu.Unlock()
						if n > 0 {
							c.Write(buf[:n])
						}
						if err != nil {
							c.Close()
							return
						}
					}
				}()
			}
		}()
		for i := 0; i < trials; i++ {
			mu.Lock()
			relayed = 0
			mu.Unlock()
			rec := map[string]any{"ev": "quota", "kind": "quota", "a": 1, "used": 12, "mib": 4, "admit": false, "transport": tr + "+race",
				"echoed": 0, "relayed": 0, "err": "", "bytes": bytesUsed, "upcount": 0, "downcount": 0, "trial": i}
			ctx, cancel := context.WithTimeout(context.Background(), 5*time.Second)
			conn, err := cmux.DialContext(ctx)
			cancel()
			if err != nil {
				rec["err"] = "dial: " + err.Error()
			} else {
				msg := make([]byte, 700)
				conn.Write(msg)
				got := 0
				buf := make([]byte, 4096)
				conn.SetReadDeadline(time.Now().Add(3 * time.Second))
				for got < len(msg) {
					n, err := conn.Read(buf)
					got += n
					if err != nil {
						if err != io.EOF {
							rec["err"] = "read: " + err.Error()
						} else {
							rec["err"] = "EOF"
						}
						break
					}
				}
				rec["echoed"] = got
				conn.Close()
			}
			time.Sleep(20 * time.Millisecond)
			mu.Lock()
			rec["relayed"] = relayed
			rec["upcount"] = relayed // per-session counting is the business of TestQuota; this driver looks at the race only
			mu.Unlock()
			out.Emit(rec)
		}
		cmux.Close()
		smux.Close()
	}
}
