------------------------- MODULE Trace_UserDiscovery -------------------------
(* Validates outcomes of the REAL serveruser.Registry: each record is one first segment (credential class, set of registered    *)
(* names its hint matches) presented to a registry (user set, shared credential or not, hint mandatory or not) from a source    *)
(* whose cache was warmed by the listed users - possibly in a generation that a reload has since replaced.                      *)
EXTENDS Integers, Sequences, FiniteSets, TLC, Json, IOUtils
VARIABLES l, x
UD == INSTANCE UserDiscovery WITH ScanHintsAlways <- TRUE
Trace == ndJsonDeserialize(IOEnv.VERIF_TRACE)
Init == l = 1 /\ x = 0
Next == l <= Len(Trace) /\ l' = l + 1 /\ UNCHANGED x
Spec == Init /\ [][Next]_<<l, x>>
R == Trace[l - 1]
Seen == l > 1
ToSet(s) == {s[i] : i \in 1..Len(s)}
Reg == ToSet(R.reg)
Hint == ToSet(R.hint)
Auths == UD!Auths(R.shared, Reg, R.cred)
\* the cache the lookup can return: nothing survives a reload
Cache == IF R.reloaded THEN <<>> ELSE R.cache

\* C07 on what the real registry answered
Authenticated == (Seen /\ R.user # "none") => R.user \in Auths
NoCredentialRejected == (Seen /\ Auths = {}) => R.user = "none"
MandatoryHintRejected == (Seen /\ R.mandatory /\ Auths \cap Hint = {}) => R.user = "none"
HintPreferred == (Seen /\ Auths \cap Hint # {}) => R.user \in Hint
Accepted == (Seen /\ Auths # {} /\ (~R.mandatory \/ Auths \cap Hint # {})) => R.user # "none"
CacheIndependent == (Seen /\ ~R.shared) => R.user = R.cold
\* conformance with the candidate order of the specification
Conforms == Seen => R.user = UD!Discover(R.shared, Reg, R.mandatory, Cache, R.cred, Hint)
TraceAccepted == TLCGet("stats").diameter - 1 = Len(Trace)
=============================================================================
