------------------------------ MODULE Interop ------------------------------
(***************************************************************************)
(* What a third-party implementation written from docs/protocol.md may     *)
(* send on one session (C09 b): a grammar of segment sequences with field  *)
(* values at the documented extremes.  TLC simulation produces the         *)
(* programmes; harness/c09 encodes them with the reference codec and plays *)
(* them against a real mieru endpoint, in both roles.                      *)
(***************************************************************************)
EXTENDS Integers, Sequences, TLC, Json, IOUtils

Pads == {0, 1, 17, 255}
OpenPay == {0, 1, 1023, 1024}              \* piggybacked payload of the open request
DataPay == {"one", "cminus", "c", "cplus", "mid", "max"}   \* relative to the low entropy chunk capacity / fragment limit
LEModes == 0..4
Rots == {0, 1, 7, 15, 16, 112, 240}        \* none, right 1/7/15, left 1/7/15
MaskKinds == {"low", "high", "alt", "rand"} \* which bits of the half mask are set

VARIABLES phase, hist
vars == <<phase, hist>>

MaxLen == 7

Init == phase = "init" /\ hist = <<>>

SendOpen == /\ phase = "init"
            /\ \E p \in OpenPay, s \in Pads :
                 hist' = Append(hist, [k |-> "open", pay |-> p, pad2 |-> s])
            /\ phase' = "open"

SendData == /\ phase = "open" /\ Len(hist) < MaxLen
            /\ \E p \in DataPay, p1 \in Pads, p2 \in Pads, m \in LEModes, r \in Rots, mk \in MaskKinds, pb \in 0..1 :
                 /\ (m = 0 => r = 0 /\ mk = "low" /\ pb = 0)
                 /\ hist' = Append(hist, [k |-> "data", pay |-> p, pad1 |-> p1, pad2 |-> p2, mode |-> m, rot |-> r,
                                           mask |-> mk, padbit |-> pb])
            /\ UNCHANGED phase

SendAck == /\ phase = "open" /\ Len(hist) < MaxLen
           /\ \E p1 \in Pads, p2 \in Pads : hist' = Append(hist, [k |-> "ack", pad1 |-> p1, pad2 |-> p2])
           /\ UNCHANGED phase

SendClose == /\ phase = "open"
             /\ \E s \in Pads : hist' = Append(hist, [k |-> "close", pad2 |-> s])
             /\ phase' = "closed"

Next == SendOpen \/ SendData \/ SendAck \/ SendClose
Spec == Init /\ [][Next]_vars

\* documented limits every produced segment respects
WithinLimits == \A i \in 1..Len(hist) :
  /\ (hist[i].k = "open" => hist[i].pay <= 1024)
  /\ (hist[i].k \in {"data", "ack"} => hist[i].pad1 <= 255)
  /\ hist[i].pad2 <= 255

Dump == phase = "closed" => PrintT(<<"BEH", ToJson(hist)>>)
=============================================================================
