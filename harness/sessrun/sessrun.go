// Package sessrun runs real mieru client and server multiplexers over the
// simulated networks inside a synctest bubble, executes per-session
// application programmes, applies a fault plan to the wire and records
// everything observable as trace events (validated by TLC against
// spec/Trace_Session.tla).
package sessrun

import (
	"bytes"
	"context"
	"encoding/hex"
	"errors"
	"fmt"
	"io"
	"math/rand"
	"net"
	"os"
	"strconv"
	"strings"
	"sync"
	"time"

	"github.com/enfein/mieru/v3/apis/trafficpattern"
	"github.com/enfein/mieru/v3/pkg/appctl/appctlpb"
	"github.com/enfein/mieru/v3/pkg/common"
	"github.com/enfein/mieru/v3/pkg/protocol"
	"github.com/enfein/mieru/v3/pkg/stderror"
	"github.com/enfein/mieru/v3/pkg/verifhook"
	"google.golang.org/protobuf/encoding/protojson"
	"google.golang.org/protobuf/proto"

	"verifharness/refcodec"
	"verifharness/simnet"
)

// Op is one application step: ["w",n] ["r",n] ["rn",total] ["rall"] ["close"] ["sleep",ms]
// ["dl",ms] (SetDeadline now+ms) ["wait",name] ["sig",name]
type Op []any

func (o Op) Name() string { return o[0].(string) }
func (o Op) Int(i int) int {
	if len(o) <= i {
		return 0
	}
	switch v := o[i].(type) {
	case float64:
		return int(v)
	case int:
		return v
	}
	return 0
}
func (o Op) Str(i int) string {
	if len(o) <= i {
		return ""
	}
	s, _ := o[i].(string)
	return s
}

// SessionProg is the programme of one proxy connection.
type SessionProg struct {
	C []Op `json:"c"`
	S []Op `json:"s"`
}

// FaultRule matches emitted datagrams by identity.
type FaultRule struct {
	Ep   string `json:"ep"`   // "C" or "S": the sender
	Kind string `json:"kind"` // "open","openresp","data","ack","close","closeresp","any"
	S    int    `json:"s"`    // session index, -1 any
	Seq  int    `json:"seq"`  // -1 any
	Tx   int    `json:"tx"`   // transmission number (1 = first), 0 any
	Fate string `json:"fate"` // "drop","dup","delay"
	Ms   int    `json:"ms"`
	N    int    `json:"n"` // apply at most N times (0 = unlimited)
	used int
}

// Gate holds a goroutine of the real code at a hook point (tag verif) until
// a named signal is given by a programme ("sig" op) or Ms virtual milliseconds pass.
type Gate struct {
	Point string `json:"point"`
	Ep    string `json:"ep"`
	S     int    `json:"s"`
	Nth   int    `json:"nth"` // which occurrence (1-based); 0 = every
	Until string `json:"until"`
	Ms    int    `json:"ms"`
	Reach string `json:"reach"` // signal closed when the gate is reached
	count int
}

// Tamper describes one wire mutation.
type Tamper struct {
	Dir  string `json:"dir"`  // "C2S" or "S2C"
	Off  int    `json:"off"`  // TCP: stream offset; UDP: byte offset inside the datagram
	Nth  int    `json:"nth"`  // UDP: which datagram of that direction (1-based)
	Kind string `json:"kind"` // "flip","sub","ins","del","trunc","splice","swapwrites","dropwrite","dupwrite"
	Bit  int    `json:"bit"`
	Seg  string `json:"seg"` // UDP: select the first transmission of this segment kind ("open","data",...) with Seq instead of Nth
	Seq  int    `json:"seq"`
	Src  int    `json:"src"` // splice: copy Len bytes from offset Src of the same datagram/write over Off
	Len  int    `json:"len"`
}

// Scenario is one run.
type Scenario struct {
	ID        string        `json:"id"`
	Transport string        `json:"transport"`
	MTU       int           `json:"mtu"`
	CPat      string        `json:"cpat"` // protojson TrafficPattern
	SPat      string        `json:"spat"`
	Sessions  []SessionProg `json:"sessions"`
	Faults    []*FaultRule  `json:"faults"`
	LossPct   int           `json:"loss"`
	DupPct    int           `json:"dup"`
	DelayPct  int           `json:"delay"`
	Tampers   []Tamper      `json:"tampers"`
	Chunk     int           `json:"chunk"` // TCP: max bytes per network Read (0 = unlimited, -1 = seeded random)
	Multiplex int           `json:"multiplex"`
	S2CLat    int           `json:"s2clat"` // TCP: milliseconds every server-to-client byte stays in flight
	C2SLat    int           `json:"c2slat"`
	LimitSec  int           `json:"limit"` // virtual seconds before the run is declared stalled
	Seed      int64         `json:"seed"`
	NoTxLog   int           `json:"notx"` // 1: omit delivered acks; 2: omit every wire event that met no fault
	Linger    int           `json:"linger"`
	Gates     []*Gate       `json:"gates"`
	User      string        `json:"user"`     // user name (default verifuser); decides the padding strategy
	Realtime  bool          `json:"realtime"` // run on the wall clock, outside a synctest bubble
	Expect    string        `json:"expect"`   // "complete": every byte written must be read and the run must not stall  // virtual ms to keep muxes alive after programmes end
}

// Event is one trace line. Every field is always present.
type Event struct {
	I    int    `json:"i"`
	T    int64  `json:"t"` // virtual ms since start
	Ev   string `json:"ev"`
	Ep   string `json:"ep"`
	S    int    `json:"s"`
	Pt   int    `json:"pt"`
	Seq  int64  `json:"seq"`
	Una  int64  `json:"una"`
	Win  int    `json:"win"`
	Frag int    `json:"frag"`
	Plen int    `json:"plen"` // plaintext payload length
	Wlen int    `json:"wlen"` // bytes on the wire
	Pre  int    `json:"pre"`
	Suf  int    `json:"suf"`
	Off  int64  `json:"off"` // stream offset of the payload in its direction
	Dig  int64  `json:"dig"`
	Tx   int    `json:"tx"`
	N    int    `json:"n"`
	Ok   bool   `json:"ok"`
	Err  string `json:"err"`
	Fate string `json:"fate"`
	A    int    `json:"a"` // auxiliary
	B    int    `json:"b"`
	Npp  int    `json:"npp"` // Tx: leading printable bytes of the nonce on the wire (-1: no nonce in this segment)
	Nps  int    `json:"nps"` // Tx: leading bytes from the 64-character subset
	Nfx  int    `json:"nfx"` // Tx: 1 if the nonce starts with one of the sender's configured fixed prefixes
}

// Result of a run.
type Result struct {
	Events  []Event
	Stalled bool
	Note    string
}

const (
	User = "verifuser"
	Pass = "verif-secret"
)

// KS returns keystream bytes for (session, dir, offset): dir 0 = client to server.
func KS(s, dir int, off int64, n int) []byte {
	out := make([]byte, n)
	for i := 0; i < n; {
		o := off + int64(i)
		blk := o >> 10
		x := uint64(s+1)*0x9E3779B97F4A7C15 ^ uint64(dir+1)*0xC2B2AE3D27D4EB4F ^ uint64(blk+1)*0x165667B19E3779F9
		buf := make([]byte, 1024)
		for k := 0; k < 1024; k += 8 {
			x ^= x << 13
			x ^= x >> 7
			x ^= x << 17
			for b := 0; b < 8; b++ {
				buf[k+b] = byte(x >> (8 * uint(b)))
			}
		}
		if blk == 0 {
			buf[0] = byte(0xA0 + s)
		}
		i += copy(out[i:], buf[o&1023:])
	}
	return out
}

type recorder struct {
	mu     sync.Mutex
	events []Event
	start  time.Time
}

func (r *recorder) add(e Event) {
	r.mu.Lock()
	e.I = len(r.events) + 1
	e.T = time.Since(r.start).Milliseconds()
	r.events = append(r.events, e)
	r.mu.Unlock()
}

func errClass(err error) string {
	if err == nil {
		return ""
	}
	if err == io.EOF {
		return "EOF"
	}
	if stderror.IsTimeout(err) {
		return "timeout"
	}
	s := err.Error()
	switch {
	case errors.Is(err, io.ErrUnexpectedEOF):
		return "uEOF"
	case errors.Is(err, io.ErrClosedPipe):
		return "closed"
	case strings.Contains(s, "timeout"):
		return "timeout"
	}
	return "err"
}

func parsePattern(s string) (*trafficpattern.Config, *appctlpb.TrafficPattern, error) {
	var pb *appctlpb.TrafficPattern
	if s != "" {
		pb = &appctlpb.TrafficPattern{}
		if err := protojson.Unmarshal([]byte(s), pb); err != nil {
			return nil, nil, err
		}
	}
	c, err := trafficpattern.NewConfig(pb)
	if err != nil {
		return nil, nil, err
	}
	return c, c.Effective(), nil
}

// wire bookkeeping per (sender endpoint, session id)
type flow struct {
	first   map[uint32]refSeg // first transmission per seq
	txCount map[string]int    // identity -> emissions
	nextOff int64
	acks    int
}

type refSeg struct {
	off  int64
	n    int
	dig  int64
	pt   uint8
	frag uint8
}

type wireState struct {
	fixed  map[string][][]byte // ep -> configured fixed nonce prefixes
	udp    bool
	mu     sync.Mutex
	flows  map[string]*flow // ep/sid
	sidIdx map[uint32]int   // session id -> session index
	hashed []byte
}

func (w *wireState) flow(ep string, sid uint32) *flow {
	k := ep + "/" + strconv.FormatUint(uint64(sid), 10)
	f := w.flows[k]
	if f == nil {
		f = &flow{first: map[uint32]refSeg{}, txCount: map[string]int{}}
		w.flows[k] = f
	}
	return f
}

func kindOf(pt uint8) string {
	switch pt {
	case 2:
		return "open"
	case 3:
		return "openresp"
	case 4:
		return "close"
	case 5:
		return "closeresp"
	case 8, 9:
		return "ack"
	case 6, 7, 10, 11:
		return "data"
	}
	return "other"
}

// describe turns a decoded segment emitted by ep into a Tx event, updating flow state.
func (w *wireState) describe(ep string, seg *refcodec.Segment) Event {
	m := seg.Meta
	idx, ok := w.sidIdx[m.SID]
	if !ok {
		idx = -1
	}
	f := w.flow(ep, m.SID)
	e := Event{Ev: "Tx", Ep: ep, S: idx, Pt: int(m.Type), Seq: int64(m.Seq), Una: int64(m.UnAck), Win: int(m.Win),
		Frag: int(m.Frag), Plen: len(seg.Payload), Wlen: seg.WireLen, Pre: seg.Pad1End - seg.MetaTagEnd,
		Suf: seg.Pad2End - seg.BodyTagEnd, Dig: seg.Digest(), Ok: true, A: int(m.Status), B: int(m.PayLen)}
	e.Npp, e.Nps, e.Nfx = -1, -1, 0
	if seg.NonceEnd > 0 {
		e.Npp, e.Nps = 0, 0
		for _, c := range seg.Nonce {
			if c < 0x20 || c > 0x7e {
				break
			}
			e.Npp++
		}
		for _, c := range seg.Nonce {
			if !strings.ContainsRune(common.Common64Set, rune(c)) {
				break
			}
			e.Nps++
		}
		for _, pre := range w.fixed[ep] {
			if bytes.HasPrefix(seg.Nonce, pre) {
				e.Nfx = 1
			}
		}
	}
	if refcodec.IsAck(m.Type) {
		f.acks++
		e.Tx = f.acks
		e.Off = -1
		return e
	}
	id := fmt.Sprintf("%d/%d", m.Type, m.Seq)
	f.txCount[id]++
	e.Tx = f.txCount[id]
	dir := 0
	if ep == "S" {
		dir = 1
	}
	if prev, seen := f.first[m.Seq]; seen {
		e.Off = prev.off
		// content comparison against the first transmission is done by the spec (dig, pt, frag)
		return e
	}
	off := f.nextOff
	e.Off = off
	if len(seg.Payload) > 0 {
		if idx >= 0 {
			e.Ok = bytes.Equal(seg.Payload, KS(idx, dir, off, len(seg.Payload)))
		}
		f.nextOff += int64(len(seg.Payload))
	}
	f.first[m.Seq] = refSeg{off: off, n: len(seg.Payload), dig: e.Dig, pt: m.Type, frag: m.Frag}
	return e
}

func matchRule(r *FaultRule, e Event) bool {
	if r.Ep != "" && r.Ep != e.Ep {
		return false
	}
	if r.Kind != "" && r.Kind != "any" && r.Kind != kindOf(uint8(e.Pt)) {
		return false
	}
	if r.S >= 0 && r.S != e.S {
		return false
	}
	if r.Seq >= 0 && int64(r.Seq) != e.Seq {
		return false
	}
	if r.Tx > 0 && r.Tx != e.Tx {
		return false
	}
	if r.N > 0 && r.used >= r.N {
		return false
	}
	return true
}

// Run executes the scenario. It must be called inside a synctest bubble.
func Run(sc *Scenario) (res *Result) {
	res = &Result{}
	rec := &recorder{start: time.Now()}
	defer func() { res.Events = rec.events }()
	if sc.MTU == 0 {
		sc.MTU = 1400
	}
	if sc.LimitSec == 0 {
		sc.LimitSec = 300
	}
	rng := rand.New(rand.NewSource(sc.Seed + 7))
	cCfg, cEff, err := parsePattern(sc.CPat)
	if err != nil {
		res.Note = "bad client pattern: " + err.Error()
		return
	}
	sCfg, sEff, err := parsePattern(sc.SPat)
	if err != nil {
		res.Note = "bad server pattern: " + err.Error()
		return
	}
	user := User
	if sc.User != "" {
		user = sc.User
	}
	ws := &wireState{flows: map[string]*flow{}, sidIdx: map[uint32]int{}, hashed: refcodec.HashedPassword(user, Pass)}
	hintUser := user
	udp := sc.Transport == "udp"
	ws.udp = udp
	ws.fixed = map[string][][]byte{}
	for ep, eff := range map[string]*appctlpb.TrafficPattern{"C": cEff, "S": sEff} {
		n := eff.GetNonce()
		if n.GetType() == appctlpb.NonceType_NONCE_TYPE_FIXED {
			for _, hs := range n.GetCustomHexStrings() {
				if b, err := hex.DecodeString(hs); err == nil {
					ws.fixed[ep] = append(ws.fixed[ep], b)
				}
			}
		}
		rec.add(Event{Ev: "Pat", Ep: ep, Pt: int(n.GetType()), N: int(n.GetMinLen()), A: int(n.GetMaxLen()), B: b2i(n.GetApplyToAllUDPPacket()),
			Win: int(eff.GetLowEntropy().GetMode()), Frag: int(eff.GetLowEntropy().GetMaskRotation()), Plen: len(ws.fixed[ep]), Off: -1,
			Ok: eff.GetTcpFragment().GetEnable()})
	}
	rec.add(Event{Ev: "Cfg", Ep: sc.Transport, S: len(sc.Sessions), Wlen: sc.MTU,
		Pre: padMax(cEff, true), Suf: padMax(cEff, false), A: padMax(sEff, true), B: padMax(sEff, false),
		Fate: sc.Expect, N: len(sc.Tampers), Ok: sc.LossPct == 0 && len(sc.Faults) == 0 && sc.DupPct == 0 && sc.DelayPct == 0})

	serverAddrS := "10.1.0.1:7000"
	var serverAddr, clientProps net.Addr
	pnet := simnet.NewPacketNet()
	snet := simnet.NewStreamNet()
	ndg := map[string]int{}
	prevDg := map[string][]byte{}
	epOf := func(ip net.IP) string {
		if ip.Equal(net.IPv4(10, 1, 0, 1)) {
			return "S"
		}
		return "C"
	}
	if udp {
		serverAddr = &net.UDPAddr{IP: net.IPv4(10, 1, 0, 1), Port: 7000}
		pnet.Decide = func(d simnet.Datagram) simnet.Fate { return simnet.Fate{} }
		pnet.OnEmit = nil
		pnet.Decide = func(d simnet.Datagram) (f simnet.Fate) {
			ep := epOf(d.Src.IP)
			dir := "C2S"
			if ep == "S" {
				dir = "S2C"
			}
			ndg[dir]++
			seg, err := refcodec.DecodeDatagram(refcodec.Keys3(ws.hashed, time.Now().Unix()), d.Data)
			if err != nil {
				rec.add(Event{Ev: "Tx", Ep: ep, S: -1, Wlen: len(d.Data), Ok: false, Err: "undecodable: " + err.Error(), Off: -1})
				return
			}
			ws.mu.Lock()
			e := ws.describe(ep, seg)
			ws.mu.Unlock()
			if ep == "C" && len(sc.Tampers) == 0 && !refcodec.HintMatches(hintUser, seg.Nonce) {
				// docs/protocol.md: the last 4 nonce bytes of what a client sends are SHA-256(user || nonce[:16])[:4]
				e.Ok, e.Err = false, "undecodable: user hint in the nonce is not the documented one"
			}
			e.Fate = "deliver"
			for _, r := range sc.Faults {
				if matchRule(r, e) {
					r.used++
					e.Fate = r.Fate
					switch r.Fate {
					case "drop":
						f.Drop = true
					case "dup":
						f.Dup = 1
						f.DupLag = time.Duration(r.Ms) * time.Millisecond
					case "delay":
						f.Delay = time.Duration(r.Ms) * time.Millisecond
					case "stall":
						// the sender's WriteTo itself takes this long (a busy socket): its output loop holds the output lock meanwhile
						f.Stall = time.Duration(r.Ms) * time.Millisecond
					}
					break
				}
			}
			if e.Fate == "deliver" {
				x := rng.Intn(100)
				switch {
				case x < sc.LossPct:
					f.Drop, e.Fate = true, "drop"
				case x < sc.LossPct+sc.DupPct:
					f.Dup, e.Fate = 1, "dup"
					f.DupLag = time.Duration(rng.Intn(60)) * time.Millisecond
				case x < sc.LossPct+sc.DupPct+sc.DelayPct:
					f.Delay, e.Fate = time.Duration(5+rng.Intn(60))*time.Millisecond, "delay"
				}
			}
			for _, tm := range sc.Tampers {
				hit := tm.Nth == ndg[dir]
				if tm.Seg != "" {
					hit = kindOf(uint8(e.Pt)) == tm.Seg && int64(tm.Seq) == e.Seq && e.Tx == 1
				}
				if tm.Dir == dir && hit && tm.Kind == "reflect" {
					// a byte-exact copy of this datagram is injected back toward its own sender,
					// ahead of (Bit=0) or after (Bit=1) the peer's genuine traffic
					cp := append([]byte(nil), d.Data...)
					src, dst := d.Dst, d.Src
					time.AfterFunc(time.Duration(tm.Len)*time.Millisecond, func() { pnet.Inject(src, dst, cp) })
					e.Fate = "reflect"
					continue
				}
				if tm.Dir == dir && hit && tm.Kind == "xsplice" {
					// bytes of the PREVIOUS datagram of this direction (another segment, possibly another session)
					prev := prevDg[dir]
					out := append([]byte(nil), d.Data...)
					if prev != nil && tm.Src+tm.Len <= len(prev) && tm.Off+tm.Len <= len(out) {
						copy(out[tm.Off:], prev[tm.Src:tm.Src+tm.Len])
					}
					f.Replace = out
					e.Fate = "tamper"
					e.A = regionOf(seg, tm.Off)
					continue
				}
				if tm.Dir == dir && hit {
					f.Replace = mutate(d.Data, tm)
					e.Fate = "tamper"
					e.A = regionOf(seg, tm.Off)
				}
			}
			prevDg[dir] = append([]byte(nil), d.Data...)
			if sc.NoTxLog == 0 || e.Fate != "deliver" || (sc.NoTxLog == 1 && !refcodec.IsAck(uint8(e.Pt))) {
				rec.add(e)
			}
			return f
		}
		pnet.OnDeliver = func(d simnet.Datagram, to *net.UDPAddr) {
			seg, err := refcodec.DecodeDatagram(refcodec.Keys3(ws.hashed, time.Now().Unix()), d.Data)
			if err != nil {
				return // tampered: cannot be attributed; receiver must discard it
			}
			if refcodec.IsAck(seg.Meta.Type) {
				return
			}
			ws.mu.Lock()
			idx, ok := ws.sidIdx[seg.Meta.SID]
			ws.mu.Unlock()
			if !ok {
				idx = -1
			}
			if sc.NoTxLog == 2 {
				return
			}
			rec.add(Event{Ev: "Rx", Ep: epOf(to.IP), S: idx, Pt: int(seg.Meta.Type), Seq: int64(seg.Meta.Seq), Off: -1, Ok: true})
		}
	} else {
		serverAddr = &net.TCPAddr{IP: net.IPv4(10, 1, 0, 1), Port: 7000}
		decs := map[string]*refcodec.StreamDecoder{}
		hintChecked := map[string]bool{}
		var dmu sync.Mutex // the two directions of a connection write concurrently
		snet.OnWrite = func(conn int, dir string, off int, b []byte) {
			k := fmt.Sprintf("%d/%s", conn, dir)
			dmu.Lock()
			d := decs[k]
			if d == nil {
				d = &refcodec.StreamDecoder{Keys: refcodec.Keys3(ws.hashed, time.Now().Unix())}
				decs[k] = d
			}
			dmu.Unlock()
			if len(sc.Tampers) > 0 {
				return // tampered streams are not decoded (regions come from a clean run)
			}
			ep := "C"
			if dir == "S2C" {
				ep = "S"
			}
			for i, seg := range d.Feed(b) {
				dmu.Lock()
				firstOfConn := !hintChecked[k]
				hintChecked[k] = true
				dmu.Unlock()
				ws.mu.Lock()
				e := ws.describe(ep, seg)
				ws.mu.Unlock()
				if ep == "C" && firstOfConn && i == 0 && !refcodec.HintMatches(hintUser, seg.Nonce) {
					e.Ok, e.Err = false, "undecodable: user hint in the nonce is not the documented one"
				}
				e.Fate = "deliver"
				e.A = conn
				if sc.NoTxLog == 0 || (sc.NoTxLog == 1 && !refcodec.IsAck(uint8(e.Pt))) {
					rec.add(e)
				}
			}
			if d.Err != nil {
				rec.add(Event{Ev: "Tx", Ep: ep, S: -1, Ok: false, Err: "undecodable: " + d.Err.Error(), Off: -1, A: conn})
				d.Err = nil
				d.Keys = nil
			}
		}
		if sc.S2CLat > 0 || sc.C2SLat > 0 {
			snet.Latency = func(conn int, dir string) time.Duration {
				if dir == "S2C" {
					return time.Duration(sc.S2CLat) * time.Millisecond
				}
				return time.Duration(sc.C2SLat) * time.Millisecond
			}
		}
		if sc.Chunk != 0 {
			crng := rand.New(rand.NewSource(sc.Seed + 99))
			snet.Chunk = func(conn int, dir string, off int) int {
				if sc.Chunk > 0 {
					return sc.Chunk
				}
				switch crng.Intn(4) {
				case 0:
					return 1
				case 1:
					return 1 + crng.Intn(40)
				case 2:
					return 1 + crng.Intn(2000)
				}
				return 0
			}
		}
		if len(sc.Tampers) > 0 {
			nwrite := map[string]int{}
			held := map[string][]byte{}
			snet.Tamper = func(conn int, dir string, off int, b []byte) []byte {
				out := b
				nwrite[dir]++
				for _, tm := range sc.Tampers {
					if tm.Dir != dir {
						continue
					}
					switch tm.Kind {
					case "swapwrites": // the Nth and (N+1)th writes of this direction change places
						if nwrite[dir] == tm.Nth {
							held[dir] = append([]byte(nil), b...)
							return []byte{}
						}
						if nwrite[dir] == tm.Nth+1 && held[dir] != nil {
							out = append(append([]byte(nil), b...), held[dir]...)
							held[dir] = nil
							return out
						}
					case "dropwrite":
						if nwrite[dir] == tm.Nth {
							return []byte{}
						}
					case "dupwrite":
						if nwrite[dir] == tm.Nth {
							return append(append([]byte(nil), b...), b...)
						}
					}
				}
				for _, tm := range sc.Tampers {
					if tm.Kind == "swapwrites" || tm.Kind == "dropwrite" || tm.Kind == "dupwrite" {
						continue
					}
					if tm.Dir == dir && tm.Off >= off && tm.Off < off+len(b) {
						t2 := tm
						t2.Off = tm.Off - off
						out = mutate(out, t2)
					}
				}
				return out
			}
		}
	}

	// ---- server mux -------------------------------------------------------
	smux := protocol.NewMux(false)
	users := map[string]*appctlpb.User{user: {Name: proto.String(user), Password: proto.String(Pass)}}
	smux.SetServerUsers(users)
	smux.SetTrafficPattern(sCfg)
	if udp {
		smux.SetPacketListenerFactory(pnet)
		smux.SetEndpoints([]protocol.UnderlayProperties{protocol.NewUnderlayProperties(sc.MTU, common.PacketTransport, serverAddr, nil)})
	} else {
		smux.SetStreamListenerFactory(snet)
		smux.SetEndpoints([]protocol.UnderlayProperties{protocol.NewUnderlayProperties(sc.MTU, common.StreamTransport, serverAddr, nil)})
	}
	if err := smux.Start(); err != nil {
		res.Note = "server start: " + err.Error()
		smux.Close()
		return
	}
	// ---- client mux -------------------------------------------------------
	cmux := protocol.NewMux(true)
	cmux.SetTrafficPattern(cCfg)
	cmux.SetClientUserNamePassword(user, refcodec.HashedPassword(user, Pass))
	cmux.SetClientMultiplexFactor(sc.Multiplex)
	cmux.SetResolver(nilResolver{})
	if udp {
		cmux.SetPacketDialer(pnet.Dialer("10.2.0.1"))
		clientProps = serverAddr
		cmux.SetEndpoints([]protocol.UnderlayProperties{protocol.NewUnderlayProperties(sc.MTU, common.PacketTransport, nil, clientProps)})
	} else {
		cmux.SetDialer(snet.Dialer("10.2.0.1"))
		cmux.SetEndpoints([]protocol.UnderlayProperties{protocol.NewUnderlayProperties(sc.MTU, common.StreamTransport, nil, serverAddr)})
	}
	_ = serverAddrS

	var wg sync.WaitGroup
	sigs := map[string]chan struct{}{}
	var sigMu sync.Mutex
	sig := func(name string) chan struct{} {
		sigMu.Lock()
		defer sigMu.Unlock()
		c := sigs[name]
		if c == nil {
			c = make(chan struct{})
			sigs[name] = c
		}
		return c
	}
	if len(sc.Gates) > 0 {
		var gmu sync.Mutex
		verifhook.Set(func(point string, id uint32, kv ...int64) {
			ep := "S"
			if len(kv) > 0 && kv[0] == 1 {
				ep = "C"
			}
			ws.mu.Lock()
			idx, ok := ws.sidIdx[id]
			ws.mu.Unlock()
			if !ok {
				return
			}
			var hit *Gate
			gmu.Lock()
			for _, g := range sc.Gates {
				if g.Point == point && g.Ep == ep && g.S == idx {
					g.count++
					if g.Nth == 0 || g.Nth == g.count {
						hit = g
					}
				}
			}
			gmu.Unlock()
			if hit == nil {
				return
			}
			rec.add(Event{Ev: "Gate", Ep: ep, S: idx, Err: point, Off: -1})
			if hit.Reach != "" {
				close(sig(hit.Reach))
			}
			if hit.Until != "" {
				select {
				case <-sig(hit.Until):
				case <-time.After(900 * time.Second):
				}
			} else if hit.Ms > 0 {
				time.Sleep(time.Duration(hit.Ms) * time.Millisecond)
			}
		})
		defer verifhook.Set(nil)
	}
	serverConns := make([]chan net.Conn, len(sc.Sessions))
	for i := range serverConns {
		serverConns[i] = make(chan net.Conn, 1)
	}
	acceptDone := make(chan struct{})
	// accept loop: identify the session by its first byte
	go func() {
		defer close(acceptDone)
		for {
			conn, err := smux.Accept()
			if err != nil {
				return
			}
			wg.Add(1)
			go func(conn net.Conn) {
				defer wg.Done()
				b := make([]byte, 1)
				for {
					n, err := conn.Read(b)
					if err != nil {
						rec.add(Event{Ev: "R", Ep: "S", S: -1, Err: errClass(err), Off: -1})
						conn.Close()
						return
					}
					if n == 1 {
						break
					}
				}
				idx := int(b[0]) - 0xA0
				if idx < 0 || idx >= len(sc.Sessions) {
					rec.add(Event{Ev: "R", Ep: "S", S: -1, N: 1, Ok: false, Err: "", Off: 0})
					conn.Close()
					return
				}
				rec.add(Event{Ev: "R", Ep: "S", S: idx, N: 1, Ok: true, Off: 0})
				runProg(rec, "S", idx, conn, sc.Sessions[idx].S, 1, sig)
			}(conn)
		}
	}()
	for i := range sc.Sessions {
		ctx, cancel := context.WithTimeout(context.Background(), 20*time.Second)
		conn, err := cmux.DialContext(ctx)
		cancel()
		if err != nil {
			rec.add(Event{Ev: "Dial", Ep: "C", S: i, Err: errClass(err), Off: -1})
			continue
		}
		if s, ok := conn.(*protocol.Session); ok {
			if id, err := strconv.ParseUint(s.ToSessionInfo().GetId(), 10, 32); err == nil {
				ws.mu.Lock()
				ws.sidIdx[uint32(id)] = i
				ws.mu.Unlock()
			}
		}
		wg.Add(1)
		go func(i int, conn net.Conn) {
			defer wg.Done()
			runProg(rec, "C", i, conn, sc.Sessions[i].C, 0, sig)
		}(i, conn)
	}
	done := make(chan struct{})
	go func() { wg.Wait(); close(done) }()
	select {
	case <-done:
	case <-time.After(time.Duration(sc.LimitSec) * time.Second):
		res.Stalled = true
		rec.add(Event{Ev: "Stall", Off: -1})
	}
	if sc.Linger > 0 {
		time.Sleep(time.Duration(sc.Linger) * time.Millisecond)
	}
	if !sc.Realtime {
		// Mux.Close holds the mux lock while a session's graceful close sleeps; the 5 s maintenance tick
		// then waits for that lock (a mutex wait is not durably blocking, so virtual time would stop).
		// Close right after a tick, which leaves the whole period free.
		el := time.Since(rec.start)
		next := (el/(5*time.Second)+1)*5*time.Second + 100*time.Millisecond
		time.Sleep(next - el)
	}
	t0 := time.Now()
	cmux.Close()
	smux.Close()
	<-acceptDone
	<-done
	rec.add(Event{Ev: "End", N: int(time.Since(t0).Milliseconds()), Off: -1, Ok: !res.Stalled})
	// An event loop that re-armed its 60-120 s read timeout just before the
	// underlay was marked done exits only when that timeout fires; let virtual
	// time pass so that only goroutines that NEVER exit trip the bubble's
	// leak detector.
	if !sc.Realtime {
		time.Sleep(150 * time.Second)
	}
	return
}

type nilResolver struct{}

func (nilResolver) LookupIP(ctx context.Context, network, host string) ([]net.IP, error) {
	ip := net.ParseIP(host)
	if ip == nil {
		return nil, errors.New("no such host")
	}
	return []net.IP{ip}, nil
}

func b2i(b bool) int {
	if b {
		return 1
	}
	return 0
}

func padMax(p *appctlpb.TrafficPattern, middle bool) int {
	if p == nil || p.Padding == nil {
		return 255
	}
	if middle {
		if p.Padding.MaxMiddlePaddingLen == nil {
			return 255
		}
		return int(p.Padding.GetMaxMiddlePaddingLen())
	}
	if p.Padding.MaxEndPaddingLen == nil {
		return 255
	}
	return int(p.Padding.GetMaxEndPaddingLen())
}

// runProg executes one side's programme on its connection.
func runProg(rec *recorder, ep string, idx int, conn net.Conn, ops []Op, roff0 int64, sig func(string) chan struct{}) {
	dirW, dirR := 0, 1
	if ep == "S" {
		dirW, dirR = 1, 0
	}
	var woff int64
	roff := roff0
	closed := false
	timeouts := 0
	var wbuf []byte
	// consecutive successful reads are logged as one R event (position of the first, total length,
	// ok only if every byte matched): one-byte readers would otherwise dominate the trace
	var pend *Event
	var pendReads int
	var pmu sync.Mutex
	flush := func() {
		pmu.Lock()
		if pend != nil {
			pend.B = pendReads
			rec.add(*pend)
			pend, pendReads = nil, 0
		}
		pmu.Unlock()
	}
	read := func(buf []byte) (int, error) {
		n, err := conn.Read(buf)
		ok := true
		if n > 0 {
			ok = bytes.Equal(buf[:n], KS(idx, dirR, roff, n))
		}
		if err == nil && n > 0 {
			pmu.Lock()
			if pend == nil {
				pend = &Event{Ev: "R", Ep: ep, S: idx, N: 0, Ok: true, Off: roff, A: len(buf)}
			}
			pend.N += n
			pend.Ok = pend.Ok && ok
			pendReads++
			full := pendReads >= 512 || pend.N >= 1<<20
			pmu.Unlock()
			if full || !ok {
				flush()
			}
		} else {
			flush()
			rec.add(Event{Ev: "R", Ep: ep, S: idx, N: n, Ok: ok, Err: errClass(err), Off: roff, A: len(buf)})
		}
		roff += int64(n)
		return n, err
	}
	defer flush()
	var bg chan struct{}
	for _, op := range ops {
		switch op.Name() {
		case "bg_rn":
			// concurrent reader: reads until total bytes (or a fatal error) while the programme goes on writing
			total := int64(op.Int(1))
			bs := op.Int(2)
			if bs == 0 {
				bs = 4096
			}
			bg = make(chan struct{})
			go func() {
				defer close(bg)
				buf := make([]byte, bs)
				for roff < total {
					want := total - roff
					b := buf
					if int64(len(b)) > want {
						b = b[:want]
					}
					if _, err := read(b); err != nil {
						if stderror.IsTimeout(err) && timeouts < 100 {
							timeouts++
							continue
						}
						return
					}
				}
			}()
		case "join":
			if bg != nil {
				<-bg
				bg = nil
			}
			flush()
		case "w":
			n := op.Int(1)
			// like io.Copy, the application reuses ONE buffer for all its writes
			// and overwrites it as soon as Write has returned
			if cap(wbuf) < n {
				wbuf = make([]byte, n)
			}
			data := wbuf[:n]
			copy(data, KS(idx, dirW, woff, n))
			flush()
			rec.add(Event{Ev: "Wb", Ep: ep, S: idx, N: n, Off: woff})
			m, err := conn.Write(data)
			for i := range data {
				data[i] = 0xEE
			}
			rec.add(Event{Ev: "W", Ep: ep, S: idx, N: m, Ok: err == nil, Err: errClass(err), Off: woff, A: n})
			woff += int64(m)
		case "wn":
			// op[1] writes of op[2] bytes each, logged as one aggregated write
			cnt, sz := op.Int(1), op.Int(2)
			flush()
			rec.add(Event{Ev: "Wb", Ep: ep, S: idx, N: cnt * sz, Off: woff})
			start := woff
			var werr error
			for k := 0; k < cnt && werr == nil; k++ {
				if cap(wbuf) < sz {
					wbuf = make([]byte, sz)
				}
				data := wbuf[:sz]
				copy(data, KS(idx, dirW, woff, sz))
				var m int
				m, werr = conn.Write(data)
				for i := range data {
					data[i] = 0xEE
				}
				woff += int64(m)
			}
			rec.add(Event{Ev: "W", Ep: ep, S: idx, N: int(woff - start), Ok: werr == nil, Err: errClass(werr), Off: start, A: cnt * sz})
		case "r":
			read(make([]byte, op.Int(1)))
		case "rn":
			total := int64(op.Int(1))
			bs := op.Int(2)
			if bs == 0 {
				bs = 4096
			}
			buf := make([]byte, bs)
			for roff < total {
				want := total - roff
				b := buf
				if int64(len(b)) > want {
					b = b[:want]
				}
				if _, err := read(b); err != nil {
					// a time-out is not the end of the stream: the application reads again
					if stderror.IsTimeout(err) && timeouts < 100 {
						timeouts++
						continue
					}
					break
				}
			}
		case "rall":
			bs := op.Int(1)
			if bs == 0 {
				bs = 4096
			}
			buf := make([]byte, bs)
			for {
				if _, err := read(buf); err != nil {
					if stderror.IsTimeout(err) && timeouts < 100 {
						timeouts++
						continue
					}
					break
				}
			}
		case "close":
			flush()
			rec.add(Event{Ev: "Cb", Ep: ep, S: idx, Off: woff})
			t0 := time.Now()
			err := conn.Close()
			rec.add(Event{Ev: "Cr", Ep: ep, S: idx, Off: woff, N: int(time.Since(t0).Milliseconds()), Err: errClass(err), Ok: err == nil})
			closed = true
		case "sleep":
			time.Sleep(time.Duration(op.Int(1)) * time.Millisecond)
		case "dl":
			conn.SetDeadline(time.Now().Add(time.Duration(op.Int(1)) * time.Millisecond))
			rec.add(Event{Ev: "Dl", Ep: ep, S: idx, N: op.Int(1), Off: -1})
		case "before":
			// progress mark: this point of the programme must be reached within op[1] virtual ms
			el := time.Since(rec.start).Milliseconds()
			rec.add(Event{Ev: "Mark", Ep: ep, S: idx, N: op.Int(1), Ok: el <= int64(op.Int(1)), Off: -1})
		case "sig":
			flush()
			func() {
				defer func() { recover() }() // signalled twice
				close(sig(op.Str(1)))
			}()
		case "wait":
			// bounded: a peer programme that never started (or died) must not wedge the harness
			select {
			case <-sig(op.Str(1)):
			case <-time.After(900 * time.Second):
				rec.add(Event{Ev: "WaitTimeout", Ep: ep, S: idx, Err: op.Str(1), Off: -1})
			}
		}
	}
	if bg != nil {
		select {
		case <-bg:
		case <-time.After(600 * time.Second):
		}
	}
	flush()
	if !closed {
		rec.add(Event{Ev: "Cb", Ep: ep, S: idx, Off: woff, A: 1})
		t0 := time.Now()
		err := conn.Close()
		rec.add(Event{Ev: "Cr", Ep: ep, S: idx, Off: woff, N: int(time.Since(t0).Milliseconds()), Err: errClass(err), Ok: err == nil, A: 1})
	}
}

func mutate(b []byte, tm Tamper) []byte {
	out := append([]byte(nil), b...)
	if tm.Off < 0 || tm.Off >= len(out) {
		if tm.Kind == "ins" && tm.Off == len(out) {
			return append(out, 0x5a)
		}
		return out
	}
	switch tm.Kind {
	case "flip":
		out[tm.Off] ^= 1 << uint(tm.Bit&7)
	case "sub":
		out[tm.Off] = out[tm.Off] + 0x55
	case "ins":
		out = append(out[:tm.Off], append([]byte{0x5a}, out[tm.Off:]...)...)
	case "del":
		out = append(out[:tm.Off], out[tm.Off+1:]...)
	case "trunc":
		out = out[:tm.Off]
	case "splice":
		if tm.Src >= 0 && tm.Src+tm.Len <= len(out) && tm.Off+tm.Len <= len(out) {
			copy(out[tm.Off:tm.Off+tm.Len], append([]byte(nil), out[tm.Src:tm.Src+tm.Len]...))
		}
	}
	return out
}

// regionOf names the wire region an offset falls into: 1 nonce, 2 metaCT, 3 metaTag,
// 4 pad1, 5 body, 6 bodyTag, 7 pad2.
func regionOf(s *refcodec.Segment, off int) int {
	switch {
	case off < s.NonceEnd:
		return 1
	case off < s.MetaEnd:
		return 2
	case off < s.MetaTagEnd:
		return 3
	case off < s.Pad1End:
		return 4
	case off < s.BodyEnd:
		return 5
	case off < s.BodyTagEnd:
		return 6
	default:
		return 7
	}
}

var _ = os.Getenv
