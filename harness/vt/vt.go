// Package vt holds the small shared helpers of the conformance drivers:
// ndjson trace output, input loading and seeded randomness.
package vt

import (
	"bufio"
	"encoding/json"
	"math/rand"
	"os"
	"strconv"
	"sync"
	"testing"
)

// Seed returns VERIF_SEED (default 1).
func Seed() int64 {
	if s := os.Getenv("VERIF_SEED"); s != "" {
		if v, err := strconv.ParseInt(s, 10, 64); err == nil {
			return v
		}
	}
	return 1
}

// Rand returns a deterministic generator derived from VERIF_SEED and salt.
func Rand(salt int64) *rand.Rand {
	return rand.New(rand.NewSource(Seed()*1000003 + salt))
}

// EnvInt reads an integer environment variable.
func EnvInt(name string, def int) int {
	if s := os.Getenv(name); s != "" {
		if v, err := strconv.Atoi(s); err == nil {
			return v
		}
	}
	return def
}

// Writer writes one JSON value per line.
type Writer struct {
	mu sync.Mutex
	f  *os.File
	w  *bufio.Writer
	n  int
}

// Create opens an ndjson file for writing.
func Create(path string) (*Writer, error) {
	f, err := os.Create(path)
	if err != nil {
		return nil, err
	}
	return &Writer{f: f, w: bufio.NewWriterSize(f, 1<<20)}, nil
}

// MustCreate opens the file named by the environment variable env.
func MustCreate(t testing.TB, env string) *Writer {
	p := os.Getenv(env)
	if p == "" {
		t.Skipf("%s not set", env)
	}
	w, err := Create(p)
	if err != nil {
		t.Fatalf("create %s: %v", p, err)
	}
	return w
}

// Emit writes v as one line.
func (w *Writer) Emit(v any) {
	b, err := json.Marshal(v)
	if err != nil {
		panic(err)
	}
	w.mu.Lock()
	w.w.Write(b)
	w.w.WriteByte('\n')
	w.n++
	w.mu.Unlock()
}

// Flush flushes buffered lines to disk.
func (w *Writer) Flush() { w.mu.Lock(); w.w.Flush(); w.mu.Unlock() }

// Count returns the number of lines written.
func (w *Writer) Count() int { w.mu.Lock(); defer w.mu.Unlock(); return w.n }

// Close flushes and closes.
func (w *Writer) Close() error {
	w.mu.Lock()
	defer w.mu.Unlock()
	w.w.Flush()
	return w.f.Close()
}

// ReadLines calls fn with every non-empty line of the file named by env.
func ReadLines(t testing.TB, env string, fn func(line []byte)) {
	p := os.Getenv(env)
	if p == "" {
		t.Skipf("%s not set", env)
	}
	f, err := os.Open(p)
	if err != nil {
		t.Fatalf("open %s: %v", p, err)
	}
	defer f.Close()
	sc := bufio.NewScanner(f)
	sc.Buffer(make([]byte, 1<<20), 1<<28)
	for sc.Scan() {
		b := sc.Bytes()
		if len(b) == 0 {
			continue
		}
		c := make([]byte, len(b))
		copy(c, b)
		fn(c)
	}
	if err := sc.Err(); err != nil {
		t.Fatalf("read %s: %v", p, err)
	}
}
