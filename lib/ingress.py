"""Shared driver for C05 / C06 (protocol half): a real server endpoint on the simulated network, a party without credentials,
genuine clients; the event stream is validated by TLC against spec/ServerIngress.tla (Trace_ServerIngress)."""
import os

import vlib
from vlib import Inconclusive

PROPS = ("SilentL", "NothingForApplicationL", "OnlyGenuineAcceptedL", "GenuineUnaffectedL")


def model(ctx):
    for cfg in ("MC_Ingress_udp", "MC_Ingress_tcp"):
        r = vlib.tlc("ServerIngress", cfg, timeout=900)
        if r.violated or r.error:
            raise Inconclusive("ServerIngress %s: %s %s" % (cfg, r.violated, r.error))
        ctx.add_tlc(r, "ServerIngress exhaustive " + cfg)
    for cfg, want in (("MC_Ingress_norecord", ("AdvInert", "Silent")), ("MC_Ingress_laxlen", ("Silent", "NoAdvSession"))):
        r = vlib.tlc("ServerIngress", cfg, timeout=900)
        ctx.coverage.setdefault("model_sensitivity", {})[cfg] = r.violated
        if r.violated not in want:
            raise Inconclusive("sanity: %s should violate one of %s, got %s %s" % (cfg, want, r.violated, r.error))


def run_world(ctx, wd, seed, transports=("udp", "tcp"), name="w"):
    out = os.path.join(wd, "ingress_%s.ndjson" % name)
    rc, log, _ = vlib.go_test("./ingress/", "TestIngress$", env={"VERIF_OUT": out, "VERIF_SEED": str(seed), "VERIF_TIER": ctx.tier,
                                                                "VERIF_TRANSPORTS": ",".join(transports)}, timeout=3000)
    if rc != 0 or not os.path.exists(out):
        raise Inconclusive("ingress driver failed:\n" + log[-3000:])
    return vlib.read_ndjson(out)


def cause_of(events, rec):
    """The adversary unit (or phase) an offending record is attributed to."""
    if rec["ev"] in ("Out", "Accept", "App"):
        for e in events:
            if e["ev"] == "In" and e["src"] == rec["src"] and e["tr"] == rec["tr"]:
                return e
        return None
    phase = None
    for e in events:
        if e["tr"] != rec["tr"]:
            continue
        if e["ev"] == "Phase":
            phase = e
        if e["i"] == rec["i"]:
            return phase
    return phase


def check(ctx, wd, events, mine, pid, label):
    """mine(cause) -> True if a violation attributed to that cause belongs to the calling check."""
    for tr in sorted({e["tr"] for e in events}):
        evs = [e for e in events if e["tr"] == tr]
        if not any(e["ev"] == "Phase" and e["cls"] == "end" for e in evs):
            raise Inconclusive("%s world did not reach its end" % tr)
        path = os.path.join(wd, "trace_%s_%s.ndjson" % (label, tr))
        vlib.write_ndjson(path, evs)

        def describe(rec, inv, evs=evs, tr=tr):
            c = cause_of(evs, rec)
            if c is None or not mine(c):
                return None
            if rec["ev"] == "Out":
                what = "the server sent %d bytes towards %s" % (rec["n"], rec["src"])
            elif rec["ev"] == "Accept":
                what = "the proxy application was handed a session from %s" % rec["src"]
            elif rec["ev"] == "App":
                what = "the proxy application received %d bytes from %s" % (rec["n"], rec["src"])
            else:
                what = "genuine client check failed (%s)" % rec["cls"]
            cls = c["cls"]
            stem = cls.split("-of-")[0] if cls.startswith("prefix") else cls
            import re
            stem = re.sub(r"\d+", "N", stem)
            return ("%s [%s]: %s after unit %r (hdr=%s cred=%s body=%s kind=%s, %d bytes)"
                    % (inv, tr, what, cls, c.get("hdr"), c.get("cred"), c.get("body"), c.get("kind"), c.get("n", 0)),
                    "%s:%s:%s:%s" % (pid, tr, inv, stem))
        vlib.validate_records(ctx, "Trace_ServerIngress", "Trace_ServerIngress_%s" % tr, path, PROPS, describe, wd, max_reports=4)

        def ddrift(rec, inv, tr=tr):
            return ("%s [%s]: the specification, fed the recorded units, disagrees at event %d (%s %s)" % (inv, tr, rec["i"], rec["ev"], rec["cls"]), "drift")
        vlib.validate_records(ctx, "Trace_ServerIngress", "Trace_ServerIngress_%s_conf" % tr, path, ("ModelSilent", "ModelAccepts"), ddrift, wd, drift=True)
