// Binds spec/WireSize.tla to the real size arithmetic of pkg/protocol.
package c14

import (
	"encoding/json"
	"os"
	"testing"

	"github.com/enfein/mieru/v3/pkg/appctl/appctlpb"
	"github.com/enfein/mieru/v3/pkg/common"
	"github.com/enfein/mieru/v3/pkg/protocol"
	"google.golang.org/protobuf/proto"

	"verifharness/vt"
)

type table struct {
	Pad  [][]int `json:"pad"`  // mtu, wireLen, existing, conf(-1 unset), expected
	Frag [][]int `json:"frag"` // mtu, mode, udpFragment, streamFragment
	Enc  [][]int `json:"enc"`  // n, mode, encodedLen
}

// TestSizeTable compares every row TLC evaluated with the real functions.
// Output: one line per disagreeing row and a summary.
func TestSizeTable(t *testing.T) {
	out := vt.MustCreate(t, "VERIF_OUT")
	defer out.Close()
	b, err := os.ReadFile(os.Getenv("VERIF_IN"))
	if err != nil {
		t.Fatal(err)
	}
	var tb table
	if err := json.Unmarshal(b, &tb); err != nil {
		t.Fatal(err)
	}
	rows, bad := 0, 0
	for _, r := range tb.Pad {
		mtu, wire, ex, conf, want := r[0], r[1], r[2], r[3], r[4]
		for _, end := range []bool{false, true} {
			var pat *appctlpb.TrafficPattern
			if conf >= 0 {
				pat = &appctlpb.TrafficPattern{Padding: &appctlpb.PaddingPattern{}}
				if end {
					pat.Padding.MaxEndPaddingLen = proto.Int32(int32(conf))
					pat.Padding.MaxMiddlePaddingLen = proto.Int32(77) // the other position must not matter
				} else {
					pat.Padding.MaxMiddlePaddingLen = proto.Int32(int32(conf))
					pat.Padding.MaxEndPaddingLen = proto.Int32(77)
				}
			}
			got := protocol.VerifMaxPaddingSize(mtu, common.PacketTransport, wire, ex, pat, end)
			rows++
			if got != want {
				bad++
				out.Emit(map[string]any{"kind": "pad", "mtu": mtu, "wireLen": wire, "existing": ex, "conf": conf, "end": end, "model": want, "real": got,
					"overflow": ex+got+wire+88 > mtu})
			}
		}
	}
	for _, r := range tb.Frag {
		mtu, mode, udp, stream := r[0], r[1], r[2], r[3]
		got, err := protocol.VerifMaxFragmentSize(mtu, common.PacketTransport, appctlpb.LowEntropyMode(mode))
		rows++
		if err != nil || got != udp {
			bad++
			out.Emit(map[string]any{"kind": "udpfrag", "mtu": mtu, "mode": mode, "model": udp, "real": got, "overflow": got > udp})
		}
		got, err = protocol.VerifMaxFragmentSize(mtu, common.StreamTransport, appctlpb.LowEntropyMode(mode))
		rows++
		if err != nil || got != stream {
			bad++
			out.Emit(map[string]any{"kind": "streamfrag", "mtu": mtu, "mode": mode, "model": stream, "real": got, "overflow": got > stream})
		}
	}
	for _, r := range tb.Enc {
		n, mode, want := r[0], r[1], r[2]
		got, err := protocol.VerifLowEntropyEncodedPayloadLen(n, appctlpb.LowEntropyMode(mode))
		rows++
		if err != nil || int(got) != want {
			bad++
			out.Emit(map[string]any{"kind": "enclen", "n": n, "mode": mode, "model": want, "real": int(got), "overflow": int(got) > want})
		}
	}
	out.Emit(map[string]any{"summary": true, "rows": rows, "mismatch": bad})
}
