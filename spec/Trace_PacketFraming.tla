------------------------- MODULE Trace_PacketFraming -------------------------
(* Validates runs of the REAL PacketOverStreamTunnel / UDPAssociateWrapper over a chunked, possibly damaged byte      *)
(* stream (framing records) and of the real SOCKS5 UDP relay with several destinations (relay records).              *)
EXTENDS Integers, Sequences, TLC, Json, IOUtils
VARIABLES l, x
Trace == ndJsonDeserialize(IOEnv.VERIF_TRACE)
Init == l = 1 /\ x = 0
Next == l <= Len(Trace) /\ l' = l + 1 /\ UNCHANGED x
Spec == Init /\ [][Next]_<<l, x>>
R == Trace[l - 1]
Seen == l > 1
F == Seen /\ R.ev = "framing"

\* C18: same datagrams, same boundaries, same bytes, same order, none merged/split/dropped, for every chunking
RoundTripReal == (F /\ R.mut = "none") => (R.got = R.sent /\ R.same /\ ~R.err /\ R.clean)
\* a wrong marker is an error at that frame: everything before it delivered intact, nothing after, never a shifted read
BadMarkerReal == (F /\ R.mut \in {"m1", "m1b", "m2", "m2b"}) => (R.got = R.at - 1 /\ R.same /\ R.err)
\* a stream cut inside a frame is an error; cut between frames is a clean end
TruncationReal == /\ (F /\ R.mut = "cut") => (R.got = R.sent /\ R.same /\ R.err /\ ~R.clean)
                  /\ (F /\ R.mut = "cutclean") => (R.got = R.sent /\ R.same /\ ~R.err /\ R.clean)
\* a datagram larger than the reader's buffer is an error, not a truncated or shifted datagram
OversizeReal == (F /\ R.mut = "oversize") => (R.got = R.at - 1 /\ R.same /\ R.err)
\* each relayed datagram goes to the destination named in ITS header, intact; each reply carries the replying host's address
RelayDest == (Seen /\ R.ev = "relay" /\ R.kind = "sent") => (R.arrived = R.dest /\ R.intact)
ReplyLabel == (Seen /\ R.ev = "relay" /\ R.kind = "reply") => (R.labelled = R.dest /\ R.intact)
TraceAccepted == TLCGet("stats").diameter - 1 = Len(Trace)
=============================================================================
