------------------------ MODULE Trace_TrafficPattern ------------------------
(* Validates what the REAL trafficpattern.NewConfig returned for each original *)
(* exported by TrafficPattern.tla: explicit fields kept, every field filled     *)
(* inside the interval of its implicit draw, effective pattern valid,           *)
(* deterministic, unchanged by Encode/Decode.                                   *)
EXTENDS Integers, Sequences, TLC, Json, IOUtils
CONSTANT MinClamp
VARIABLES l, x
TP == INSTANCE TrafficPattern

Trace == ndJsonDeserialize(IOEnv.VERIF_TRACE)
Init == l = 1 /\ x = 0
Next == l <= Len(Trace) /\ l' = l + 1 /\ UNCHANGED x
Spec == Init /\ [][Next]_<<l, x>>

R == Trace[l - 1]
Seen == l > 1

InRange(o, e) ==
  /\ (o.tcpEnable = TP!U => e.tcpEnable \in TP!RTcp(o.unlock))
  /\ (o.sleep = TP!U => e.sleep \in TP!RSleep(o.unlock))
  /\ (o.type = TP!U => e.type \in TP!RType(o.unlock))
  /\ (o.apply = TP!U => e.apply \in {0, 1})
  /\ (o.min = TP!U => e.min \in (TP!RMin(o.unlock) \cup (IF o.max # TP!U THEN {o.max} ELSE {})))
  /\ (o.max = TP!U => e.max \in e.min..12)
  /\ (o.mid = TP!U => e.mid \in TP!RMid)
  /\ (o.end = TP!U => e.end \in TP!REnd(o.unlock))
  /\ (o.mode = TP!U => e.mode \in TP!RMode(o.unlock))
  /\ (o.rot = TP!U => e.rot \in TP!RRot)

\* C16
Constructed == Seen => R.err = ""
ExplicitKept == (Seen /\ R.err = "") => (TP!ExplicitKept(R.o, R.e) /\ R.kept)
ImplicitInRange == (Seen /\ R.err = "") => (TP!Complete(R.e) /\ InRange(R.o, R.e))
EffectiveValid == (Seen /\ R.err = "") => (R.valid /\ TP!Validate(R.e))
Deterministic == (Seen /\ R.err = "") => R.det
SurvivesEncoding == (Seen /\ R.err = "") => R.rt
TraceAccepted == TLCGet("stats").diameter - 1 = Len(Trace)
=============================================================================
