CONSTANTS
  NC = 2
  NS = 0
  Win = 2
  MaxTx = 3
  Drops = 1
  Dups = 0
  Piggy = FALSE
  CloseC = TRUE
  InOrderClose = FALSE
INIT Init
NEXT Next
INVARIANTS PrefixOK AckSound AckOnWire NoEarlyDiscard CloseNoTrunc NoStall NotAbandoned DumpFates
CHECK_DEADLOCK FALSE
