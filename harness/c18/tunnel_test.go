// Binds spec/PacketFraming.tla to apis/common (PacketOverStreamTunnel, UDPAssociateWrapper) and to the UDP relay of pkg/socks5.
package c18

import (
	"bytes"
	"encoding/json"
	"fmt"
	"io"
	"math/rand"
	"net"
	"sync"
	"testing"
	"testing/synctest"
	"time"

	apicommon "github.com/enfein/mieru/v3/apis/common"
	"github.com/enfein/mieru/v3/pkg/socks5"

	"verifharness/simnet"
	"verifharness/vt"
)

// concrete size for a model length (0..3) and variant
func size(l, variant int) int {
	switch l {
	case 0:
		return 0
	case 1:
		return 1
	case 2:
		return []int{2, 255, 256, 1000}[variant%4]
	}
	return []int{3, 65535, 65534, 4096}[variant%4]
}

// concrete bytes: model symbols at both ends, cyclic inside; 7 = any other byte
func concretise(model []int, variant int, r *rand.Rand) []byte {
	n := size(len(model), variant)
	out := make([]byte, n)
	for i := range out {
		var sym int
		switch {
		case i == 0:
			sym = model[0]
		case i == n-1:
			sym = model[len(model)-1]
		default:
			sym = model[i%len(model)]
		}
		switch sym {
		case 0:
			out[i] = 0x00
		case 255:
			out[i] = 0xff
		default:
			out[i] = byte(1 + r.Intn(254))
		}
	}
	return out
}

type result struct {
	Ev      string `json:"ev"`
	Case    int    `json:"case"`
	Variant int    `json:"variant"`
	Mut     string `json:"mut"`   // none | m1@k | m2@k | cut@class | oversize@k
	At      int    `json:"at"`    // datagram index of the mutation (1-based), 0 if none
	Sent    int    `json:"sent"`  // datagrams written
	Got     int    `json:"got"`   // datagrams read successfully
	Same    bool   `json:"same"`  // every datagram read equals the written one at that position (size and bytes)
	Err     bool   `json:"err"`   // the reader ended with an error (other than a clean end of stream)
	Clean   bool   `json:"clean"` // the reader ended with a clean end of stream between frames
	Chunk   int    `json:"chunk"`
	Through string `json:"through"` // tunnel | wrapper
}

// runFraming writes the datagrams through a real tunnel over a chunked stream, optionally damaging the byte stream.
func runFraming(dgs [][]byte, chunk int, mut string, at int, cutOff int, through string, seed int64) result {
	res := result{Ev: "framing", Mut: mut, At: at, Sent: len(dgs), Chunk: chunk, Through: through, Same: true}
	snet := simnet.NewStreamNet()
	snet.BufSize = 1 << 22
	crng := rand.New(rand.NewSource(seed))
	if chunk != 0 {
		snet.Chunk = func(conn int, dir string, off int) int {
			if chunk > 0 {
				return chunk
			}
			return 1 + crng.Intn(9)
		}
	}
	// frame offsets in the clean stream
	offs := []int{0}
	for _, d := range dgs {
		offs = append(offs, offs[len(offs)-1]+len(d)+4)
	}
	total := offs[len(offs)-1]
	snet.Tamper = func(conn int, dir string, off int, b []byte) []byte {
		if dir != "C2S" {
			return b
		}
		out := append([]byte(nil), b...)
		fix := func(pos int, f func(byte) byte) {
			if pos >= off && pos < off+len(out) {
				out[pos-off] = f(out[pos-off])
			}
		}
		switch mut {
		case "m1":
			fix(offs[at-1], func(byte) byte { return 0xff })
		case "m1b":
			fix(offs[at-1], func(byte) byte { return 0x01 })
		case "m2":
			fix(offs[at]-1, func(byte) byte { return 0x00 })
		case "m2b":
			fix(offs[at]-1, func(byte) byte { return 0xfe })
		}
		return out
	}
	l, _ := snet.Listen(nil, "tcp", "10.1.0.1:9")
	cli, srv, err := snet.Dial("10.2.0.1", "10.1.0.1:9")
	if err != nil {
		res.Err = true
		return res
	}
	defer l.Close()
	if through == "wrapper" {
		// the SOCKS5 UDP header (up to 22 bytes) shares the 65535-byte frame with the payload
		capped := make([][]byte, len(dgs))
		for i, d := range dgs {
			if len(d) > 65535-22 {
				d = d[:65535-22]
			}
			capped[i] = d
		}
		dgs = capped
	}
	var wr, rd net.PacketConn
	wt, rt := apicommon.NewPacketOverStreamTunnel(cli), apicommon.NewPacketOverStreamTunnel(srv)
	wr, rd = wt, rt
	dst := &net.UDPAddr{IP: net.ParseIP("192.0.2.77"), Port: 5353}
	if through == "wrapper" {
		wr, rd = apicommon.NewUDPAssociateWrapper(wt), apicommon.NewUDPAssociateWrapper(rt)
		if seed%2 == 1 {
			dst = &net.UDPAddr{IP: net.ParseIP("2001:db8::77"), Port: 65535}
		}
	}
	go func() {
		written := 0
		for _, d := range dgs {
			if mut == "cut" && through == "tunnel" {
				// write raw frames so that the stream can end inside a frame
				f := append([]byte{0, byte(len(d) >> 8), byte(len(d))}, d...)
				f = append(f, 0xff)
				if written+len(f) > cutOff {
					cli.Write(f[:cutOff-written])
					break
				}
				cli.Write(f)
				written += len(f)
				continue
			}
			if _, err := wr.WriteTo(d, dst); err != nil {
				break
			}
		}
		cli.Close()
	}()
	bufLen := 65536
	if mut == "oversize" {
		bufLen = len(dgs[at-1]) - 1
		if through == "wrapper" {
			bufLen = len(dgs[at-1]) - 1 - 256 // the wrapper adds 256 bytes of head room
		}
		if bufLen < 0 {
			bufLen = 0
		}
	}
	buf := make([]byte, bufLen)
	for {
		n, from, err := rd.ReadFrom(buf)
		if err != nil {
			if err == io.EOF {
				res.Clean = true
			} else {
				res.Err = true
			}
			break
		}
		if res.Got < len(dgs) {
			if !bytes.Equal(buf[:n], dgs[res.Got]) {
				res.Same = false
			}
			if through == "wrapper" {
				if ua, ok := from.(*net.UDPAddr); !ok || !ua.IP.Equal(dst.IP) || ua.Port != dst.Port {
					res.Same = false
				}
			}
		} else {
			res.Same = false
		}
		res.Got++
		if res.Got > len(dgs)+2 {
			break
		}
	}
	_ = total
	srv.Close()
	return res
}

// TestFraming runs every TLC case through the real tunnel (and wrapper) under several chunkings and mutations.
func TestFraming(t *testing.T) {
	out := vt.MustCreate(t, "VERIF_OUT")
	defer out.Close()
	variants := vt.EnvInt("VERIF_VARIANTS", 2)
	ci := 0
	vt.ReadLines(t, "VERIF_IN", func(line []byte) {
		var model [][]int
		if err := json.Unmarshal(line, &model); err != nil {
			t.Fatalf("bad case: %v", err)
		}
		ci++
		for v := 0; v < variants; v++ {
			seed := vt.Seed()*1000003 + int64(ci)*17 + int64(v)
			r := rand.New(rand.NewSource(seed))
			dgs := make([][]byte, len(model))
			for i, m := range model {
				dgs[i] = concretise(m, v+i, r)
			}
			chunk := []int{1, 0, -1, 3}[(ci+v)%4]
			emit := func(res result) {
				res.Case, res.Variant = ci, v
				out.Emit(res)
			}
			synctest.Test(t, func(t *testing.T) {
				emit(runFraming(dgs, chunk, "none", 0, 0, "tunnel", seed))
				emit(runFraming(dgs, chunk, "none", 0, 0, "wrapper", seed))
				if len(dgs) > 0 {
					at := 1 + r.Intn(len(dgs))
					for _, mut := range []string{"m1", "m1b", "m2", "m2b"}[(ci+v)%2*2 : (ci+v)%2*2+2] {
						emit(runFraming(dgs, chunk, mut, at, 0, "tunnel", seed))
					}
					// cut the stream inside frame `at` (header, data or just before the trailer) or exactly at its end
					start := 0
					for i := 0; i < at-1; i++ {
						start += len(dgs[i]) + 4
					}
					flen := len(dgs[at-1]) + 4
					for _, c := range []int{1, 2, 3, flen - 1, flen}[(ci+v)%3 : (ci+v)%3+3] {
						if c > 0 && c <= flen {
							res := runFraming(dgs, chunk, "cut", at, start+c, "tunnel", seed)
							res.Sent = at - 1
							if c == flen {
								res.Sent = at
								res.Mut = "cutclean"
							}
							emit(res)
						}
					}
					if len(dgs[at-1]) > 0 && (len(dgs[at-1]) > 257 || (ci+v)%2 == 0) {
						through := []string{"tunnel", "wrapper"}[(ci+v)%2]
						if through == "wrapper" && len(dgs[at-1]) <= 257 {
							through = "tunnel"
						}
						// the reader's buffer is one byte short of datagram `at`; every earlier datagram must fit it
						limit := len(dgs[at-1]) - 1
						if through == "wrapper" {
							limit -= 256
						}
						fits := limit >= 0
						for i := 0; i < at-1; i++ {
							if len(dgs[i]) > limit {
								fits = false
							}
						}
						if fits {
							emit(runFraming(dgs, chunk, "oversize", at, 0, through, seed))
						}
					}
				}
			})
		}
	})
}

// ---- relay addressing (real time, loopback sockets) -----------------------

type sink struct {
	conn  *net.UDPConn
	mu    sync.Mutex
	got   [][]byte
	from  []*net.UDPAddr
	reply chan int
}

func newSink(addr string) (*sink, error) {
	a, err := net.ResolveUDPAddr("udp", addr)
	if err != nil {
		return nil, err
	}
	c, err := net.ListenUDP("udp", a)
	if err != nil {
		return nil, err
	}
	s := &sink{conn: c, reply: make(chan int, 16)}
	go func() {
		buf := make([]byte, 1<<16)
		for {
			n, from, err := c.ReadFromUDP(buf)
			if err != nil {
				return
			}
			s.mu.Lock()
			s.got = append(s.got, append([]byte(nil), buf[:n]...))
			s.from = append(s.from, from)
			s.mu.Unlock()
		}
	}()
	return s, nil
}

func (s *sink) answer(payload []byte) {
	s.mu.Lock()
	defer s.mu.Unlock()
	if len(s.from) > 0 {
		s.conn.WriteToUDP(payload, s.from[len(s.from)-1])
	}
}

func header(a *net.UDPAddr) []byte {
	h := []byte{0, 0, 0}
	if v4 := a.IP.To4(); v4 != nil {
		h = append(append(h, 1), v4...)
	} else {
		h = append(append(h, 4), a.IP.To16()...)
	}
	return append(h, byte(a.Port>>8), byte(a.Port))
}

type relayRec struct {
	Ev       string `json:"ev"`
	Order    string `json:"order"`
	Step     int    `json:"step"`
	Kind     string `json:"kind"` // sent | reply
	Dest     int    `json:"dest"` // index of the sink named in the header (sent) / replying (reply)
	Arrived  int    `json:"arrived"`  // sent: index of the sink where the datagram arrived (-1 nowhere / several)
	Intact   bool   `json:"intact"`   // payload and boundary preserved
	Labelled int    `json:"labelled"` // reply: index of the sink whose address the reply header carries (-1 none/garbled)
}

// TestRelay drives a real socks5.Server (server role, packet-over-stream association) with several destinations per
// association and interleavings of requests and replies given by VERIF_IN lines: ["s0","s1","r0",...].
func TestRelay(t *testing.T) {
	out := vt.MustCreate(t, "VERIF_OUT")
	defer out.Close()
	vt.ReadLines(t, "VERIF_IN", func(line []byte) {
		var order []string
		if err := json.Unmarshal(line, &order); err != nil {
			t.Fatalf("bad order: %v", err)
		}
		sinks := []*sink{}
		for _, a := range []string{"127.0.0.1:0", "127.0.0.1:0", "[::1]:0"} {
			s, err := newSink(a)
			if err != nil {
				continue
			}
			defer s.conn.Close()
			sinks = append(sinks, s)
		}
		srv, _ := socks5.New(&socks5.Config{AllowLoopbackDestination: true, HandshakeTimeout: 2 * time.Second,
			AuthOpts: socks5.Auth{ClientSideAuthentication: true}})
		cli, sc := net.Pipe()
		done := make(chan struct{})
		go func() { srv.ServeConn(sc); close(done) }()
		go cli.Write([]byte{5, 3, 0, 1, 0, 0, 0, 0, 0, 0})
		rep := make([]byte, 10)
		cli.SetReadDeadline(time.Now().Add(3 * time.Second))
		if _, err := io.ReadFull(cli, rep); err != nil || rep[1] != 0 {
			t.Fatalf("associate failed: %v %v", err, rep)
		}
		cli.SetReadDeadline(time.Time{})
		tun := apicommon.NewPacketOverStreamTunnel(cli)
		replies := make(chan []byte, 16)
		go func() {
			buf := make([]byte, 1<<16)
			for {
				n, err := tun.Read(buf)
				if err != nil {
					return
				}
				replies <- append([]byte(nil), buf[:n]...)
			}
		}()
		key := fmt.Sprint(order)
		for step, op := range order {
			idx := int(op[1] - '0')
			if idx >= len(sinks) {
				continue
			}
			s := sinks[idx]
			dst := s.conn.LocalAddr().(*net.UDPAddr)
			if op[0] == 's' || op[0] == 'n' {
				payload := []byte(fmt.Sprintf("C18 step %d to %d %s", step, idx, bytes.Repeat([]byte{0x00, 0xff}, step*37)))
				before := make([]int, len(sinks))
				for i, x := range sinks {
					x.mu.Lock()
					before[i] = len(x.got)
					x.mu.Unlock()
				}
				hd := header(dst)
				if op[0] == 'n' {
					// the destination is named, not numbered: "localhost" and this sink's port (two sinks share the name)
					hd = append([]byte{0, 0, 0, 3, 9}, []byte("localhost")...)
					hd = append(hd, byte(dst.Port>>8), byte(dst.Port))
				}
				tun.Write(append(hd, payload...))
				// wait for the relayed datagram (a loaded machine can take longer than the usual millisecond), then a little
				// longer so that a duplicate or a copy to another destination would be seen too
				for w := 0; w < 100; w++ {
					time.Sleep(20 * time.Millisecond)
					got := 0
					for i, x := range sinks {
						x.mu.Lock()
						got += len(x.got) - before[i]
						x.mu.Unlock()
					}
					if got > 0 {
						break
					}
				}
				time.Sleep(40 * time.Millisecond)
				arrived, intact, n := -1, false, 0
				for i, x := range sinks {
					x.mu.Lock()
					if len(x.got) > before[i] {
						n += len(x.got) - before[i]
						arrived = i
						intact = bytes.Equal(x.got[len(x.got)-1], payload)
					}
					x.mu.Unlock()
				}
				if n != 1 {
					arrived = -1
				}
				out.Emit(relayRec{Ev: "relay", Order: key, Step: step, Kind: "sent", Dest: idx, Arrived: arrived, Intact: intact, Labelled: -1})
			} else {
				payload := []byte(fmt.Sprintf("C18 reply %d from %d", step, idx))
				s.answer(payload)
				rec := relayRec{Ev: "relay", Order: key, Step: step, Kind: "reply", Dest: idx, Arrived: -1, Labelled: -1}
				select {
				case r := <-replies:
					for i, x := range sinks {
						h := header(x.conn.LocalAddr().(*net.UDPAddr))
						if bytes.HasPrefix(r, h) {
							rec.Labelled = i
							rec.Intact = bytes.Equal(r[len(h):], payload)
						}
					}
					rec.Arrived = idx
				case <-time.After(2 * time.Second):
				}
				out.Emit(rec)
			}
		}
		cli.Close()
		select {
		case <-done:
		case <-time.After(3 * time.Second):
		}
	})
}
