package c19

import (
	"context"
	"fmt"
	"io"
	"net"
	"sync"
	"sync/atomic"
	"testing"
	"time"

	"github.com/enfein/mieru/v3/pkg/appctl/appctlpb"
	"github.com/enfein/mieru/v3/pkg/common"
	"github.com/enfein/mieru/v3/pkg/metrics"
	"github.com/enfein/mieru/v3/pkg/protocol"
	"google.golang.org/protobuf/proto"

	"verifharness/refcodec"
	"verifharness/simnet"
	"verifharness/vt"
)

type fresolver struct{}

func (fresolver) LookupIP(ctx context.Context, network, host string) ([]net.IP, error) {
	return []net.IP{net.ParseIP(host)}, nil
}

// TestConcurrentFirstSessions: several sessions of a user the server has never seen before arrive at the same moment (real
// goroutines, real time, in-memory TCP).  Whatever the application was handed must be what the user's upload counter says.
func TestConcurrentFirstSessions(t *testing.T) {
	out := vt.MustCreate(t, "VERIF_OUT")
	defer out.Close()
	const trials, par, size = 250, 4, 1500
	users := map[string]*appctlpb.User{}
	name := func(i int) string { return fmt.Sprintf("first%d_%d", vt.Seed(), i) }
	for i := 0; i < trials; i++ {
		users[name(i)] = &appctlpb.User{Name: proto.String(name(i)), Password: proto.String("pw")}
	}
	snet := simnet.NewStreamNet()
	addr := &net.TCPAddr{IP: net.IPv4(10, 1, 0, 1), Port: 7000}
	smux := protocol.NewMux(false)
	smux.SetServerUsers(users)
	smux.SetStreamListenerFactory(snet)
	smux.SetEndpoints([]protocol.UnderlayProperties{protocol.NewUnderlayProperties(1400, common.StreamTransport, addr, nil)})
	if err := smux.Start(); err != nil {
		t.Fatalf("server start: %v", err)
	}
	defer smux.Close()
	var delivered sync.Map // user -> *atomic.Int64
	go func() {
		for {
			c, err := smux.Accept()
			if err != nil {
				return
			}
			go func() {
				defer c.Close()
				buf := make([]byte, 4096)
				var cnt *atomic.Int64
				for {
					n, err := c.Read(buf)
					if n > 0 {
						if cnt == nil {
							u := c.(interface{ UserName() string }).UserName()
							v, _ := delivered.LoadOrStore(u, &atomic.Int64{})
							cnt = v.(*atomic.Int64)
						}
						cnt.Add(int64(n))
					}
					if err != nil {
						return
					}
				}
			}()
		}
	}()
	for i := 0; i < trials; i++ {
		u := name(i)
		start := make(chan struct{})
		var wg sync.WaitGroup
		for k := 0; k < par; k++ {
			wg.Add(1)
			go func(k int) {
				defer wg.Done()
				m := protocol.NewMux(true)
				m.SetClientUserNamePassword(u, refcodec.HashedPassword(u, "pw"))
				m.SetResolver(fresolver{})
				m.SetDialer(snet.Dialer(fmt.Sprintf("10.2.%d.%d", i%250, k+1)))
				m.SetEndpoints([]protocol.UnderlayProperties{protocol.NewUnderlayProperties(1400, common.StreamTransport, nil, addr)})
				defer m.Close()
				<-start
				ctx, cancel := context.WithTimeout(context.Background(), 5*time.Second)
				c, err := m.DialContext(ctx)
				cancel()
				if err != nil {
					return
				}
				c.Write(make([]byte, size))
				time.Sleep(30 * time.Millisecond)
				c.Close()
			}(k)
		}
		close(start)
		wg.Wait()
		// both numbers are taken once they have stopped moving (the server application may still be draining on a loaded machine)
		up := metrics.RegisterMetric(fmt.Sprintf(metrics.UserMetricGroupFormat, u), metrics.UserMetricUploadBytes, metrics.COUNTER_TIME_SERIES)
		sample := func() (int64, int64) {
			var got int64
			if v, ok := delivered.Load(u); ok {
				got = v.(*atomic.Int64).Load()
			}
			return got, up.Load()
		}
		got, counted := sample()
		for w := 0; w < 100; w++ {
			time.Sleep(20 * time.Millisecond)
			g2, c2 := sample()
			if g2 == got && c2 == counted && (w > 0 || got > 0) {
				break
			}
			got, counted = g2, c2
		}
		out.Emit(map[string]any{"ev": "first", "trial": i, "sessions": par, "delivered": got, "counted": counted})
	}
	_ = io.EOF
}
