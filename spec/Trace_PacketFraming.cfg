SPECIFICATION Spec
INVARIANTS RoundTripReal BadMarkerReal TruncationReal OversizeReal RelayDest ReplyLabel
POSTCONDITION TraceAccepted
CHECK_DEADLOCK FALSE
