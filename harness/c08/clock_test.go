// Binds spec/KeyTime.tla to the real key derivation, key cache and timestamp checks: a real client at virtual time tc produces its
// first datagram; a real server at virtual time tc+d receives it; accept = the server answers.
package c08

import (
	"context"
	crand "crypto/rand"
	"encoding/json"
	"net"
	"testing"
	"testing/synctest"
	"time"

	"github.com/enfein/mieru/v3/pkg/appctl/appctlpb"
	"github.com/enfein/mieru/v3/pkg/common"
	"github.com/enfein/mieru/v3/pkg/protocol"
	"github.com/enfein/mieru/v3/pkg/protocol/serveruser"
	"google.golang.org/protobuf/proto"

	"verifharness/refcodec"
	"verifharness/simnet"
	"verifharness/vt"
)

const user, pass = "clockuser", "clock-secret"
const epoch = 946684800 // the bubbles' clock starts at 2000-01-01T00:00:00Z, a multiple of 120 and 60

type pair struct {
	Tc   int  `json:"tc"`
	D    int  `json:"d"`
	Warm int  `json:"warm"` // a first dial this many seconds before tc warms the client's key cache (0 = none)
	Key  bool `json:"key"`
	St   bool `json:"stamp"`
	Acc  bool `json:"accept"`
}

type nilResolver struct{}

func (nilResolver) LookupIP(ctx context.Context, network, host string) ([]net.IP, error) {
	return []net.IP{net.ParseIP(host)}, nil
}

// clientDatagram returns the first datagram a real client emits at virtual time tc, and which of the reference keys
// (previous / current / next slot of tc) opens it.
func clientDatagram(t *testing.T, tc, warm int) (dg []byte, keyslot int, stampDiff int) {
	keyslot, stampDiff = -1, 99
	synctest.Test(t, func(t *testing.T) {
		pnet := simnet.NewPacketNet()
		sink, _ := pnet.Listen("10.1.0.1:7000")
		defer sink.Close()
		dial := func() []byte {
			// drop whatever an earlier dial left behind (close requests, retransmissions)
			for {
				sink.SetReadDeadline(time.Now().Add(time.Microsecond))
				if _, _, err := sink.ReadFrom(make([]byte, 2048)); err != nil {
					break
				}
			}
			cmux := protocol.NewMux(true)
			cmux.SetClientUserNamePassword(user, refcodec.HashedPassword(user, pass))
			cmux.SetResolver(nilResolver{})
			cmux.SetPacketDialer(pnet.Dialer("10.2.0.1"))
			cmux.SetEndpoints([]protocol.UnderlayProperties{protocol.NewUnderlayProperties(1400, common.PacketTransport, nil, &net.UDPAddr{IP: net.IPv4(10, 1, 0, 1), Port: 7000})})
			defer func() { cmux.Close() }()
			ctx, cancel := context.WithTimeout(context.Background(), 5*time.Second)
			conn, err := cmux.DialContext(ctx)
			cancel()
			if err != nil {
				return nil
			}
			go conn.Write([]byte("hello"))
			buf := make([]byte, 2048)
			sink.SetReadDeadline(time.Now().Add(500 * time.Millisecond))
			n, _, err := sink.ReadFrom(buf)
			conn.Close()
			if err != nil {
				return nil
			}
			return buf[:n]
		}
		if warm > 0 && tc-warm >= 0 {
			time.Sleep(time.Duration(tc-warm) * time.Second)
			dial()
			// virtual time spent by the warm-up dial is below one second
			time.Sleep(time.Until(time.Unix(epoch+int64(tc), 0)))
		} else {
			time.Sleep(time.Duration(tc) * time.Second)
		}
		dg = dial()
		if dg != nil {
			if seg, err := refcodec.DecodeDatagram(refcodec.Keys3(refcodec.HashedPassword(user, pass), epoch+int64(tc)), dg); err == nil {
				keyslot = seg.KeyIndex
				stampDiff = int(seg.Meta.Timestamp) - int((epoch+int64(tc))/60)
			}
		}
		time.Sleep(150 * time.Second)
	})
	return
}

// serverAccepts reports whether a real server at virtual time tr answers the datagram.
func serverAccepts(t *testing.T, tr int, dg []byte) (accepted bool) {
	synctest.Test(t, func(t *testing.T) {
		time.Sleep(time.Duration(tr) * time.Second)
		pnet := simnet.NewPacketNet()
		smux := protocol.NewMux(false)
		smux.SetServerUsers(map[string]*appctlpb.User{user: {Name: proto.String(user), Password: proto.String(pass)}})
		smux.SetPacketListenerFactory(pnet)
		smux.SetEndpoints([]protocol.UnderlayProperties{protocol.NewUnderlayProperties(1400, common.PacketTransport, &net.UDPAddr{IP: net.IPv4(10, 1, 0, 1), Port: 7000}, nil)})
		if err := smux.Start(); err != nil {
			t.Fatalf("start: %v", err)
		}
		go func() {
			for {
				c, err := smux.Accept()
				if err != nil {
					return
				}
				go func() { b := make([]byte, 64); c.Read(b); c.Close() }()
			}
		}()
		cli, _ := pnet.Listen("10.2.0.1:40000")
		pnet.Inject(cli.LocalAddr().(*net.UDPAddr), &net.UDPAddr{IP: net.IPv4(10, 1, 0, 1), Port: 7000}, dg)
		buf := make([]byte, 2048)
		cli.SetReadDeadline(time.Now().Add(900 * time.Millisecond))
		if _, _, err := cli.ReadFrom(buf); err == nil {
			accepted = true
		}
		cli.Close()
		// let the accepted session finish its own Close first: Mux.Close on a live session sleeps while holding the
		// underlay's close mutex, which stops a virtual clock as soon as the event loop wants that mutex
		time.Sleep(3 * time.Second)
		smux.Close()
		time.Sleep(150 * time.Second)
	})
	return
}

// TestClockPairs evaluates every (tc, d, warm) of VERIF_IN.
func TestClockPairs(t *testing.T) {
	out := vt.MustCreate(t, "VERIF_OUT")
	defer out.Close()
	cache := map[[2]int][]any{}
	vt.ReadLines(t, "VERIF_IN", func(line []byte) {
		var p pair
		if err := json.Unmarshal(line, &p); err != nil {
			t.Fatalf("bad pair: %v", err)
		}
		k := [2]int{p.Tc, p.Warm}
		c, ok := cache[k]
		if !ok {
			dg, ks, sd := clientDatagram(t, p.Tc, p.Warm)
			c = []any{dg, ks, sd}
			cache[k] = c
		}
		dg := c[0].([]byte)
		rec := map[string]any{"ev": "pair", "tc": p.Tc, "d": p.D, "warm": p.Warm, "key": p.Key, "stamp": p.St, "accept": p.Acc,
			"produced": dg != nil, "keyslot": c[1], "stampdiff": c[2], "real": false}
		if dg != nil {
			rec["real"] = serverAccepts(t, p.Tc+p.D, dg)
		}
		out.Emit(rec)
	})
}

// TestDecryptorHistory: ONE server-side user registry (its per-user decryptor caches the key triple of a slot) answers a whole history of
// first segments while the server's clock is moved forwards and BACKWARDS between them (each step runs in its own bubble whose clock is
// set to the server time of that step; the registry object is shared).  The segments come from the reference codec at client time tc.
func TestDecryptorHistory(t *testing.T) {
	out := vt.MustCreate(t, "VERIF_OUT")
	defer out.Close()
	hashed := refcodec.HashedPassword(user, pass)
	n := 0
	vt.ReadLines(t, "VERIF_IN", func(line []byte) {
		var hist []pair
		if err := json.Unmarshal(line, &hist); err != nil {
			t.Fatalf("bad history: %v", err)
		}
		n++
		reg := &serveruser.Registry{}
		reg.SetUsers(map[string]*appctlpb.User{user: {Name: proto.String(user), Password: proto.String(pass)}})
		for k, p := range hist {
			accepted := false
			synctest.Test(t, func(t *testing.T) {
				time.Sleep(time.Duration(p.Tc+p.D) * time.Second)
				ct := int64(epoch + p.Tc)
				nonce := make([]byte, 24)
				crand.Read(nonce)
				refcodec.ApplyHint(user, nonce)
				m := refcodec.Meta{Type: refcodec.T("openSessionRequest"), Timestamp: uint32(ct / 60), SID: uint32(1000 + k), Seq: 0}
				seg := refcodec.SealMeta(refcodec.KeyAt(hashed, ct), nonce, m)
				src := serveruser.SourceFromAddr(&net.UDPAddr{IP: net.IPv4(10, 2, byte(n), byte(k)), Port: 4000})
				block, plain, _, err := reg.Discover(seg, src, true)
				if err == nil && block != nil {
					// the key opened it; the timestamp is judged where the metadata is parsed
					if pm, perr := refcodec.ParseMeta(plain); perr == nil {
						diff := int64(pm.Timestamp) - time.Now().Unix()/60
						accepted = diff >= -1 && diff <= 1
					}
				}
			})
			out.Emit(map[string]any{"ev": "hist", "tc": p.Tc, "d": p.D, "warm": 0, "key": p.Key, "stamp": p.St, "accept": p.Acc,
				"produced": true, "keyslot": 1, "stampdiff": 0, "real": accepted, "h": n, "k": k})
		}
	})
}
