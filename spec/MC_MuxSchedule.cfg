CONSTANTS
  MaxU = 3
  MaxSteps = 9
  Dialers = {1, 2}
SPECIFICATION Spec
INVARIANTS NoSessionOnClosedUnderlay ClosedOnlyIfDisabled
CHECK_DEADLOCK FALSE
