CONSTANTS
  Sess = {1, 2}
  NC = 1
  NS = 0
  Frag = TRUE
  HoldMutex = FALSE
  CloseC = FALSE
  Tampers = 0
  Recheck = TRUE
INIT Init
NEXT Next
INVARIANTS NeverBroken
CHECK_DEADLOCK FALSE
