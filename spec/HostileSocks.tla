----------------------------- MODULE HostileSocks -----------------------------
(***************************************************************************)
(* C10, SOCKS5 side: the byte strings a SOCKS5 user, a proxy server or an  *)
(* egress proxy can put in front of mieru's parsers, as a grammar over     *)
(* boundary classes (RFC 1928 / 1929 layouts as read by pkg/socks5 and     *)
(* apis/model).  TLC enumerates the classes exhaustively and exports them; *)
(* the contract is the same as for hostile segments: no input makes the    *)
(* process die, and other users of the same endpoint keep being served.    *)
(***************************************************************************)
EXTENDS Integers, Sequences, FiniteSets, TLC, Json

Vers == {5, 4, 0, 255}
\* method greeting: ver nmethods methods...
Greetings == [k : {"greeting"}, ver : Vers, nm : {0, 1, 2, 255}, have : {"exact", "short", "none", "extra"}]
\* RFC 1929 request: ver ulen user plen pass
AuthReqs == [k : {"authreq"}, ver : {1, 0, 5}, ulen : {0, 1, 255}, uhave : {"exact", "short"}, plen : {0, 1, 255}, phave : {"exact", "short", "none"}]
\* two-byte replies (method selection, authentication status)
ShortReplies == [k : {"reply2"}, ver : {5, 1, 0, 255}, code : {0, 1, 2, 255}, cut : {"none", "one", "zero"}, extra : {"none", "garbage"}]
\* request / reply: ver code rsv atyp addr port
AddrForms == {"exact", "short", "empty", "dom0", "dom255", "domBad"}
Cuts == {"none", "afterVer", "afterRsv", "afterAtyp", "midAddr", "beforePort", "midPort"}
Messages == [k : {"message"}, ver : {5, 4, 0}, code : {0, 1, 2, 3, 8, 255}, rsv : {0, 1}, atyp : {1, 3, 4, 0, 2, 255},
             addr : AddrForms, cut : Cuts, tail : {"none", "garbage"}]
\* UDP associate datagram: rsv(2) frag atyp addr port data
Datagrams == [k : {"datagram"}, rsv : {0, 1, 65535}, frag : {0, 1, 255}, atyp : {1, 3, 4, 0, 2, 255}, addr : AddrForms,
              cut : {"none", "empty", "afterVer", "afterTwo", "afterRsv", "afterAtyp", "midAddr", "beforePort", "midPort"}, data : {0, 1, 1400}]

\* a message is well formed iff an honest implementation could have produced it
WellFormed(m) ==
  CASE m.k = "greeting" -> m.ver = 5 /\ m.nm \in {1, 2} /\ m.have = "exact"
    [] m.k = "authreq" -> m.ver = 1 /\ m.ulen > 0 /\ m.plen > 0 /\ m.uhave = "exact" /\ m.phave = "exact"
    [] m.k = "reply2" -> m.ver \in {5, 1} /\ m.cut = "none" /\ m.extra = "none"
    [] m.k = "message" -> m.ver = 5 /\ m.rsv = 0 /\ m.atyp \in {1, 3, 4} /\ m.addr \in {"exact", "dom255"} /\ m.cut = "none" /\ m.tail = "none"
    [] m.k = "datagram" -> m.rsv = 0 /\ m.frag = 0 /\ m.atyp \in {1, 3, 4} /\ m.addr \in {"exact", "dom255"} /\ m.cut = "none"

\* addr forms that make sense for an address type (others collapse to the same bytes)
Sensible(m) == (m.atyp # 3 => m.addr \in {"exact", "short", "empty"}) /\ (m.atyp = 3 => m.addr # "empty")
Hostile(S) == {m \in S : ~WellFormed(m) /\ (m.k \in {"message", "datagram"} => Sensible(m))}

ASSUME Cardinality(Hostile(Messages)) > 1000 /\ Cardinality(Hostile(Datagrams)) > 500

VARIABLES alive, victim
Init == alive = TRUE /\ victim = "served"
Next == UNCHANGED <<alive, victim>>
Alive == alive
VictimServed == victim = "served"
=============================================================================
