----------------------------- MODULE Trace_Egress -----------------------------
(* Validates what the REAL socks5 back end decided (decide records: FindAction on raw request bytes) and  *)
(* did (effect records: reply code, connections and datagrams that reached listeners on local addresses). *)
EXTENDS Integers, Sequences, TLC, Json, IOUtils
VARIABLES l, x
EG == INSTANCE Egress
Trace == ndJsonDeserialize(IOEnv.VERIF_TRACE)
Init == l = 1 /\ x = 0
Next == l <= Len(Trace) /\ l' = l + 1 /\ UNCHANGED x
Spec == Init /\ [][Next]_<<l, x>>
R == Trace[l - 1]
Seen == l > 1
Forbidden == EG!Local(R.c) /\ ~EG!Allowed(R.u, R.c)

\* C12, decision
GateReal == (Seen /\ R.ev = "decide" /\ Forbidden) => R.real = "REJECT"
UnaffectedReal == (Seen /\ R.ev = "decide" /\ ~Forbidden) => R.real = EG!FirstMatch(R.rules, R.c)
\* C12, effect: nothing reaches a local destination for a user without the flag; the request is answered "not allowed by ruleset"
NoLocalConnect == (Seen /\ R.ev = "effect" /\ R.cmd = "connect" /\ Forbidden) => (~R.tcphit /\ R.reply = 2)
NoLocalRelay == (Seen /\ R.ev = "effect" /\ R.cmd = "associate" /\ Forbidden) => ~R.udphit
AllowedGetThrough == (Seen /\ R.ev = "effect" /\ R.cmd = "connect" /\ R.c = "loop4" /\ R.u \in {"allowLoopback", "both"})
                        => (R.tcphit /\ R.reply = 0)
TraceAccepted == TLCGet("stats").diameter - 1 = Len(Trace)
=============================================================================
