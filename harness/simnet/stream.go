package simnet

import (
	"context"
	"errors"
	"io"
	"net"
	"os"
	"sync"
	"time"
)

// StreamNet is an in-memory TCP network.
type StreamNet struct {
	mu        sync.Mutex
	listeners map[string]*StreamListener
	nextPort  int
	nconn     int
	// BufSize bounds the bytes in flight per direction (back-pressure).
	BufSize int
	// Chunk, if set, returns the maximum number of bytes the next Read of
	// the given connection direction may return (stream offset given).
	Chunk func(conn int, dir string, off int) int
	// Tamper, if set, may rewrite written bytes; called with the stream
	// offset of b[0]; returns replacement bytes (may differ in length).
	Tamper func(conn int, dir string, off int, b []byte) []byte
	// OnWrite records every write (after tampering) under the pipe lock.
	OnWrite func(conn int, dir string, off int, b []byte)
	// OnDial is called with each new connection pair.
	OnDial func(conn int, client, server *StreamConn)
	// Latency, if set, returns how long bytes written in the given direction of a connection stay invisible to the reader.
	Latency func(conn int, dir string) time.Duration
	// OnClose is called when an end of a connection is closed by its owner (not under any lock).
	OnClose func(conn int, clientSide bool)
}

// NewStreamNet creates an empty network.
func NewStreamNet() *StreamNet {
	return &StreamNet{listeners: map[string]*StreamListener{}, nextPort: 50000, BufSize: 4 * 1024 * 1024}
}

type pipe struct {
	mu      sync.Mutex
	buf     []byte
	hidden  int // bytes at the end of buf still in flight (Latency): not yet readable
	woff    int // stream offset of the next byte to be written (before tamper)
	roff    int
	wclosed bool // writer closed: reader sees EOF after draining
	reset   bool
	rwake   chan struct{}
	wwake   chan struct{}
	limit   int
}

func newPipe(limit int) *pipe {
	return &pipe{rwake: make(chan struct{}, 1), wwake: make(chan struct{}, 1), limit: limit}
}

func kick(c chan struct{}) {
	select {
	case c <- struct{}{}:
	default:
	}
}

// StreamConn is one end of a connection.
type StreamConn struct {
	net    *StreamNet
	id     int
	rdir   string // direction name of what this end reads
	wdir   string
	r, w   *pipe
	local  net.Addr
	remote net.Addr
	mu     sync.Mutex
	rdl    time.Time
	wdl    time.Time
	dlCh   chan struct{}
	closed bool
}

// StreamListener accepts connections.
type StreamListener struct {
	net  *StreamNet
	addr *net.TCPAddr
	ch   chan *StreamConn
	done chan struct{}
	once sync.Once
}

func tcpAddr(s string) *net.TCPAddr {
	a, err := net.ResolveTCPAddr("tcp", s)
	if err != nil {
		panic(err)
	}
	if a.IP == nil {
		a.IP = net.IPv4(127, 0, 0, 1)
	}
	return a
}

// Listen implements apicommon.StreamListenerFactory.
func (n *StreamNet) Listen(ctx context.Context, network, address string) (net.Listener, error) {
	n.mu.Lock()
	defer n.mu.Unlock()
	a := tcpAddr(address)
	if _, ok := n.listeners[a.String()]; ok {
		return nil, errors.New("address in use")
	}
	l := &StreamListener{net: n, addr: a, ch: make(chan *StreamConn, 64), done: make(chan struct{})}
	n.listeners[a.String()] = l
	return l, nil
}

func (l *StreamListener) Accept() (net.Conn, error) {
	select {
	case c := <-l.ch:
		return c, nil
	case <-l.done:
		return nil, net.ErrClosed
	}
}

func (l *StreamListener) Close() error {
	l.once.Do(func() {
		close(l.done)
		l.net.mu.Lock()
		delete(l.net.listeners, l.addr.String())
		l.net.mu.Unlock()
	})
	return nil
}

func (l *StreamListener) Addr() net.Addr { return l.addr }

// Dialer returns an apicommon.Dialer whose connections originate from ip.
func (n *StreamNet) Dialer(ip string) *StreamDialer { return &StreamDialer{n: n, ip: ip} }

// StreamDialer implements apicommon.Dialer.
type StreamDialer struct {
	n  *StreamNet
	ip string
}

func (d *StreamDialer) DialContext(ctx context.Context, network, address string) (net.Conn, error) {
	c, _, err := d.n.Dial(d.ip, address)
	return c, err
}

// Dial connects to a listener and returns both ends.
func (n *StreamNet) Dial(fromIP, address string) (*StreamConn, *StreamConn, error) {
	n.mu.Lock()
	l := n.listeners[tcpAddr(address).String()]
	n.nextPort++
	port := n.nextPort
	n.nconn++
	id := n.nconn
	n.mu.Unlock()
	if l == nil {
		return nil, nil, errors.New("connection refused")
	}
	c2s, s2c := newPipe(n.BufSize), newPipe(n.BufSize)
	ca := &net.TCPAddr{IP: net.ParseIP(fromIP), Port: port}
	cli := &StreamConn{net: n, id: id, rdir: "S2C", wdir: "C2S", r: s2c, w: c2s, local: ca, remote: l.addr, dlCh: make(chan struct{})}
	srv := &StreamConn{net: n, id: id, rdir: "C2S", wdir: "S2C", r: c2s, w: s2c, local: l.addr, remote: ca, dlCh: make(chan struct{})}
	if n.OnDial != nil {
		n.OnDial(id, cli, srv)
	}
	select {
	case l.ch <- srv:
	case <-l.done:
		return nil, nil, errors.New("connection refused")
	}
	return cli, srv, nil
}

// ID returns the connection number.
func (c *StreamConn) ID() int { return c.id }

func (c *StreamConn) Read(b []byte) (int, error) {
	if len(b) == 0 {
		return 0, nil
	}
	p := c.r
	for {
		c.mu.Lock()
		closed, dl, dlCh := c.closed, c.rdl, c.dlCh
		c.mu.Unlock()
		if closed {
			return 0, net.ErrClosed
		}
		p.mu.Lock()
		if p.reset {
			p.mu.Unlock()
			return 0, errors.New("connection reset by peer")
		}
		if vis := len(p.buf) - p.hidden; vis > 0 {
			n := len(b)
			if n > vis {
				n = vis
			}
			if c.net.Chunk != nil {
				if k := c.net.Chunk(c.id, c.rdir, p.roff); k > 0 && k < n {
					n = k
				}
			}
			copy(b, p.buf[:n])
			p.buf = p.buf[n:]
			p.roff += n
			if len(p.buf)-p.hidden > 0 {
				kick(p.rwake)
			}
			kick(p.wwake)
			p.mu.Unlock()
			return n, nil
		}
		if p.wclosed && len(p.buf) == 0 {
			p.mu.Unlock()
			return 0, io.EOF
		}
		p.mu.Unlock()
		if !dl.IsZero() {
			d := time.Until(dl)
			if d <= 0 {
				return 0, os.ErrDeadlineExceeded
			}
			t := time.NewTimer(d)
			select {
			case <-p.rwake:
				t.Stop()
			case <-dlCh:
				t.Stop()
			case <-t.C:
				return 0, os.ErrDeadlineExceeded
			}
		} else {
			select {
			case <-p.rwake:
			case <-dlCh:
			}
		}
	}
}

func (c *StreamConn) Write(b []byte) (int, error) {
	p := c.w
	total := 0
	for len(b) > 0 {
		c.mu.Lock()
		closed, dl, dlCh := c.closed, c.wdl, c.dlCh
		c.mu.Unlock()
		if closed {
			return total, net.ErrClosed
		}
		p.mu.Lock()
		if p.reset || p.wclosed {
			p.mu.Unlock()
			return total, errors.New("broken pipe")
		}
		room := p.limit - len(p.buf)
		if room > 0 {
			n := len(b)
			if n > room {
				n = room
			}
			chunk := b[:n]
			if c.net.Tamper != nil {
				chunk = c.net.Tamper(c.id, c.wdir, p.woff, chunk)
			}
			if c.net.OnWrite != nil {
				c.net.OnWrite(c.id, c.wdir, p.woff, chunk)
			}
			p.woff += n
			p.buf = append(p.buf, chunk...)
			var lat time.Duration
			if c.net.Latency != nil {
				lat = c.net.Latency(c.id, c.wdir)
			}
			if lat > 0 {
				k := len(chunk)
				p.hidden += k
				time.AfterFunc(lat, func() {
					p.mu.Lock()
					p.hidden -= k
					kick(p.rwake)
					p.mu.Unlock()
				})
			} else {
				kick(p.rwake)
			}
			p.mu.Unlock()
			b = b[n:]
			total += n
			continue
		}
		p.mu.Unlock()
		if !dl.IsZero() {
			d := time.Until(dl)
			if d <= 0 {
				return total, os.ErrDeadlineExceeded
			}
			t := time.NewTimer(d)
			select {
			case <-p.wwake:
				t.Stop()
			case <-dlCh:
				t.Stop()
			case <-t.C:
				return total, os.ErrDeadlineExceeded
			}
		} else {
			select {
			case <-p.wwake:
			case <-dlCh:
			}
		}
	}
	return total, nil
}

// Close closes this end: the peer reads EOF after draining.
func (c *StreamConn) Close() error {
	c.mu.Lock()
	if c.closed {
		c.mu.Unlock()
		return nil
	}
	c.closed = true
	close(c.dlCh)
	c.dlCh = make(chan struct{})
	c.mu.Unlock()
	if c.net != nil && c.net.OnClose != nil {
		c.net.OnClose(c.id, c.wdir == "C2S")
	}
	c.w.mu.Lock()
	c.w.wclosed = true
	kick(c.w.rwake)
	c.w.mu.Unlock()
	c.r.mu.Lock()
	c.r.wclosed = true // our reads end; peer writes fail
	kick(c.r.wwake)
	kick(c.r.rwake)
	c.r.mu.Unlock()
	return nil
}

// Reset aborts both directions immediately (TCP RST).
func (c *StreamConn) Reset() {
	for _, p := range []*pipe{c.r, c.w} {
		p.mu.Lock()
		p.reset = true
		p.buf = nil
		kick(p.rwake)
		kick(p.wwake)
		p.mu.Unlock()
	}
}

func (c *StreamConn) LocalAddr() net.Addr  { return c.local }
func (c *StreamConn) RemoteAddr() net.Addr { return c.remote }

func (c *StreamConn) SetDeadline(t time.Time) error {
	c.mu.Lock()
	c.rdl, c.wdl = t, t
	close(c.dlCh)
	c.dlCh = make(chan struct{})
	c.mu.Unlock()
	return nil
}

func (c *StreamConn) SetReadDeadline(t time.Time) error {
	c.mu.Lock()
	c.rdl = t
	close(c.dlCh)
	c.dlCh = make(chan struct{})
	c.mu.Unlock()
	return nil
}

func (c *StreamConn) SetWriteDeadline(t time.Time) error {
	c.mu.Lock()
	c.wdl = t
	close(c.dlCh)
	c.dlCh = make(chan struct{})
	c.mu.Unlock()
	return nil
}
