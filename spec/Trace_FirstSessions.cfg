SPECIFICATION Spec
INVARIANTS FirstSessionsCounted
POSTCONDITION TraceAccepted
CHECK_DEADLOCK FALSE
