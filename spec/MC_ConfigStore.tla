---------------------------- MODULE MC_ConfigStore ----------------------------
EXTENDS ConfigStore
\* PatchLocal over the full product is 3^9 * 3^2 squared: check it on the bases x all patches (what the binding replays) and
\* on every pair of single-field configurations
Small(side) == OneField(side) \cup TwoFields(side) \cup {Empty(side), Full(side)}
PatchLocalSmall(side) == \A d \in Bases(side) \cup OneField(side), p \in Small(side) :
   LET m == Merge(d, p) IN
   /\ \A f \in Scalars(side) : (p.s[f] = U => m.s[f] = d.s[f]) /\ (p.s[f] # U => m.s[f] = p.s[f])
   /\ \A k \in Keys : (p.coll[k] = Absent => m.coll[k] = d.coll[k]) /\ (p.coll[k] # Absent => m.coll[k] = p.coll[k])
   /\ Merge(m, p) = m
ASSUME PatchLocalSmall("client")
ASSUME PatchLocalSmall("server")
ASSUME PrintT(<<"CASES", ToJson([cases |-> Cases("client") \cup Cases("server"), malformed |-> Malformed])>>)
=============================================================================
