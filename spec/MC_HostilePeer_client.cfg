CONSTANTS
  MaxUnits = 24
  Role = "client"
SPECIFICATION Spec
INVARIANTS Alive VictimUnaffected DumpHist
CHECK_DEADLOCK FALSE
