// Package ingress binds spec/ServerIngress.tla to a real server mux: a party without any credential sends forged units, damaged
// copies of genuine first segments and exact copies of traffic the server accepted (from other source addresses / on new
// connections), interleaved with genuine sessions.  Everything that reaches the server and everything the server emits is
// recorded from the simulated network in one event stream, which TLC validates against the specification.
package ingress

import (
	"context"
	"crypto/sha256"
	"encoding/json"
	"fmt"
	"io"
	"math/rand"
	"net"
	"os"
	"strconv"
	"strings"
	"sync"
	"testing"
	"testing/synctest"
	"time"

	"github.com/enfein/mieru/v3/pkg/appctl/appctlpb"
	"github.com/enfein/mieru/v3/pkg/common"
	"github.com/enfein/mieru/v3/pkg/protocol"
	"google.golang.org/protobuf/proto"

	"verifharness/refcodec"
	"verifharness/simnet"
)

const (
	alice, alicePw = "alice", "alice-secret"
	bob, bobPw     = "bob", "bob-secret"
	mtu            = 1400
	serverAddrS    = "10.1.0.1:7000"
)

type event struct {
	I    int    `json:"i"`
	Ev   string `json:"ev"` // In | Out | Accept | App | G | Phase
	Tr   string `json:"tr"`
	Src  string `json:"src"` // In: source address / connection; Out: destination; Accept, App: remote address
	Adv  bool   `json:"adv"` // that address belongs to the party without a credential
	Nid  int    `json:"nid"`
	Hdr  string `json:"hdr"`
	Cred string `json:"cred"`
	Ts   string `json:"ts"`
	Body string `json:"body"`
	Kind string `json:"kind"`
	Sid  int    `json:"sid"`
	Cls  string `json:"cls"`
	N    int    `json:"n"`
	Ok   bool   `json:"ok"`
	At   int64  `json:"at"`
	Hex  string `json:"hex"` // first bytes of an adversary unit, for replays of a violation
}

type world struct {
	t       *testing.T
	tr      string
	udp     bool
	mu      sync.Mutex
	evs     []event
	nids    map[string]int
	advSrc  map[string]bool
	pnet    *simnet.PacketNet
	snet    *simnet.StreamNet
	smux    *protocol.Mux
	connSrc map[int]string
	genDec  map[int]*refcodec.StreamDecoder
	genBuf  map[int][]byte // recorded client-to-server bytes of genuine connections
	genDg   [][]byte       // recorded client-to-server datagrams of the genuine clients
	r       *rand.Rand
	t0      time.Time
	nextAdv int
	wg      sync.WaitGroup
	thor    bool
}

func (w *world) emit(e event) {
	w.mu.Lock()
	defer w.mu.Unlock()
	e.I = len(w.evs) + 1
	e.Tr = w.tr
	e.At = time.Since(w.t0).Milliseconds()
	if e.Hdr == "" {
		e.Hdr, e.Cred, e.Ts, e.Body, e.Kind = "-", "-", "-", "-", "-"
	}
	w.evs = append(w.evs, e)
}

// nid numbers the distinct 16-byte prefixes of encrypted metadata (what the replay cache keys on).
func (w *world) nid(b []byte) int {
	w.mu.Lock()
	defer w.mu.Unlock()
	k := "short-" + strconv.Itoa(len(w.nids))
	if len(b) >= 16 {
		k = string(b[:16])
	}
	if n, ok := w.nids[k]; ok {
		return n
	}
	n := len(w.nids) + 1
	w.nids[k] = n
	return n
}

func kindOf(t uint8) string {
	switch {
	case t == refcodec.T("openSessionRequest"):
		return "open"
	case t == refcodec.T("closeSessionRequest") || t == refcodec.T("closeSessionResponse"):
		return "close"
	case refcodec.IsAck(t):
		return "ack"
	}
	return "data"
}

func allKeys(now int64) [][]byte {
	var ks [][]byte
	for _, up := range [][2]string{{alice, alicePw}, {bob, bobPw}} {
		ks = append(ks, refcodec.Keys3(refcodec.HashedPassword(up[0], up[1]), now)...)
	}
	return ks
}

type nilResolver struct{}

func (nilResolver) LookupIP(ctx context.Context, network, host string) ([]net.IP, error) {
	return []net.IP{net.ParseIP(host)}, nil
}

func (w *world) startServer() {
	w.smux = protocol.NewMux(false)
	w.smux.SetServerUsers(map[string]*appctlpb.User{
		alice: {Name: proto.String(alice), Password: proto.String(alicePw)},
		bob:   {Name: proto.String(bob), Password: proto.String(bobPw)},
		// an entry with a name and no credential at all: it must not become a user whose password is the empty string
		"guest": {Name: proto.String("guest")},
	})
	if w.udp {
		w.smux.SetPacketListenerFactory(w.pnet)
		w.smux.SetEndpoints([]protocol.UnderlayProperties{protocol.NewUnderlayProperties(mtu, common.PacketTransport, &net.UDPAddr{IP: net.IPv4(10, 1, 0, 1), Port: 7000}, nil)})
	} else {
		w.smux.SetStreamListenerFactory(w.snet)
		w.smux.SetEndpoints([]protocol.UnderlayProperties{protocol.NewUnderlayProperties(mtu, common.StreamTransport, &net.TCPAddr{IP: net.IPv4(10, 1, 0, 1), Port: 7000}, nil)})
	}
	if err := w.smux.Start(); err != nil {
		w.t.Fatalf("server start: %v", err)
	}
	go func() {
		for {
			c, err := w.smux.Accept()
			if err != nil {
				return
			}
			remote := c.RemoteAddr().String()
			w.mu.Lock()
			adv := w.advSrc[remote]
			w.mu.Unlock()
			w.emit(event{Ev: "Accept", Src: remote, Adv: adv})
			go func() {
				buf := make([]byte, 32768)
				for {
					n, err := c.Read(buf)
					if n > 0 {
						w.emit(event{Ev: "App", Src: remote, Adv: adv, N: n})
						if _, werr := c.Write(buf[:n]); werr != nil {
							break
						}
					}
					if err != nil {
						break
					}
				}
				c.Close()
			}()
		}
	}()
}

func (w *world) hooks() {
	if w.udp {
		w.pnet.OnDeliver = func(d simnet.Datagram, to *net.UDPAddr) {
			if to.String() != serverAddrS {
				return
			}
			src := d.Src.String()
			w.mu.Lock()
			adv := w.advSrc[src]
			w.mu.Unlock()
			if adv {
				return // the driver logged it when it injected it
			}
			e := event{Ev: "In", Src: src, N: len(d.Data), Cls: "genuine", Hdr: "full", Cred: "reg", Ts: "ok", Body: "ok", Kind: "data"}
			seg, err := refcodec.DecodeDatagram(allKeys(time.Now().Unix()), d.Data)
			if err != nil {
				e.Cls = "genuine-undecodable"
				e.Cred = "none"
			} else {
				e.Kind, e.Sid = kindOf(seg.Meta.Type), int(seg.Meta.SID)
			}
			e.Nid = w.nid(d.Data)
			w.mu.Lock()
			w.genDg = append(w.genDg, append([]byte(nil), d.Data...))
			w.mu.Unlock()
			w.emit(e)
		}
		w.pnet.OnEmit = func(d simnet.Datagram, f simnet.Fate) {
			if d.Src.String() != serverAddrS {
				return
			}
			dst := d.Dst.String()
			w.mu.Lock()
			adv := w.advSrc[dst]
			w.mu.Unlock()
			w.emit(event{Ev: "Out", Src: dst, Adv: adv, N: len(d.Data)})
		}
		return
	}
	w.snet.OnDial = func(conn int, client, server *simnet.StreamConn) {
		w.mu.Lock()
		w.connSrc[conn] = client.LocalAddr().String()
		w.mu.Unlock()
	}
	w.snet.OnWrite = func(conn int, dir string, off int, b []byte) {
		w.mu.Lock()
		src := w.connSrc[conn]
		adv := w.advSrc[src]
		w.mu.Unlock()
		if dir == "S2C" {
			w.emit(event{Ev: "Out", Src: src, Adv: adv, N: len(b)})
			return
		}
		if adv {
			return
		}
		w.mu.Lock()
		w.genBuf[conn] = append(w.genBuf[conn], b...)
		dec := w.genDec[conn]
		first := false
		if dec == nil {
			dec = &refcodec.StreamDecoder{Keys: allKeys(time.Now().Unix())}
			w.genDec[conn] = dec
			first = true
		}
		_ = first
		started := dec.Offset > 0
		w.mu.Unlock()
		if started {
			return
		}
		segs := dec.Feed(b)
		if len(segs) > 0 {
			s := segs[0]
			w.emit(event{Ev: "In", Src: src, N: s.WireLen, Cls: "genuine", Hdr: "full", Cred: "reg", Ts: "ok", Body: "ok",
				Kind: kindOf(s.Meta.Type), Sid: int(s.Meta.SID), Nid: w.nid(w.genBuf[conn])})
		}
	}
}

// ---- genuine clients ------------------------------------------------------------------------------------------------------

type gsession struct {
	w    *world
	mux  *protocol.Mux
	conn net.Conn
	name string
}

func (w *world) genuine(user, pw, ip string) *gsession {
	m := protocol.NewMux(true)
	m.SetClientUserNamePassword(user, refcodec.HashedPassword(user, pw))
	m.SetResolver(nilResolver{})
	if w.udp {
		m.SetPacketDialer(w.pnet.Dialer(ip))
		m.SetEndpoints([]protocol.UnderlayProperties{protocol.NewUnderlayProperties(mtu, common.PacketTransport, nil, &net.UDPAddr{IP: net.IPv4(10, 1, 0, 1), Port: 7000})})
	} else {
		m.SetDialer(w.snet.Dialer(ip))
		m.SetEndpoints([]protocol.UnderlayProperties{protocol.NewUnderlayProperties(mtu, common.StreamTransport, nil, &net.TCPAddr{IP: net.IPv4(10, 1, 0, 1), Port: 7000})})
	}
	ctx, cancel := context.WithTimeout(context.Background(), 10*time.Second)
	defer cancel()
	c, err := m.DialContext(ctx)
	g := &gsession{w: w, mux: m, conn: c, name: user}
	if err != nil {
		w.emit(event{Ev: "G", Cls: user + " dial: " + err.Error(), Ok: false})
		g.conn = nil
	}
	return g
}

func (g *gsession) roundtrip(n int, what string) {
	if g.conn == nil {
		g.w.emit(event{Ev: "G", Cls: g.name + " " + what + ": no connection", Ok: false})
		return
	}
	data := make([]byte, n)
	g.w.r.Read(data)
	errc := make(chan error, 1)
	go func() { _, err := g.conn.Write(data); errc <- err }()
	got := make([]byte, n)
	g.conn.SetReadDeadline(time.Now().Add(30 * time.Second))
	_, err := io.ReadFull(g.conn, got)
	ok := err == nil && string(got) == string(data)
	cls := g.name + " " + what
	if err != nil {
		cls += ": " + err.Error()
	} else if !ok {
		cls += ": echoed bytes differ"
	}
	select {
	case werr := <-errc:
		if werr != nil {
			ok = false
			cls += " write: " + werr.Error()
		}
	case <-time.After(30 * time.Second):
		ok = false
		cls += " write blocked"
	}
	g.w.emit(event{Ev: "G", Cls: cls, N: n, Ok: ok})
}

func (g *gsession) close() {
	if g.conn != nil {
		g.conn.Close()
	}
	time.Sleep(3 * time.Second)
	g.mux.Close()
}

// ---- adversary ------------------------------------------------------------------------------------------------------------

func (w *world) advAddr() string {
	w.mu.Lock()
	defer w.mu.Unlock()
	w.nextAdv++
	a := fmt.Sprintf("10.9.%d.%d:%d", (w.nextAdv>>8)&255, w.nextAdv&255, 20000+w.nextAdv%30000)
	w.advSrc[a] = true
	return a
}

func hexHead(b []byte) string {
	if len(b) > 24 {
		b = b[:24]
	}
	return fmt.Sprintf("%x", b)
}

// probe presents one unit of the party without a credential.  For TCP, data is everything the new connection carries.
func (w *world) probe(e event, data []byte) {
	e.Ev, e.Adv, e.N, e.Hex = "In", true, len(data), hexHead(data)
	if e.Ts == "" {
		e.Ts = "ok"
	}
	if w.udp {
		src := w.advAddr()
		e.Src = src
		e.Nid = w.nid(data)
		if e.Hdr == "short" {
			e.Nid = 0
		}
		w.emit(e)
		h, p, _ := net.SplitHostPort(src)
		port, _ := strconv.Atoi(p)
		w.pnet.Inject(&net.UDPAddr{IP: net.ParseIP(h), Port: port}, &net.UDPAddr{IP: net.IPv4(10, 1, 0, 1), Port: 7000}, data)
		time.Sleep(2 * time.Millisecond)
		return
	}
	w.mu.Lock()
	w.nextAdv++
	ip := fmt.Sprintf("10.9.%d.%d", (w.nextAdv>>8)&255, w.nextAdv&255)
	w.mu.Unlock()
	cli, _, err := w.snet.Dial(ip, serverAddrS)
	if err != nil {
		w.t.Fatalf("probe dial: %v", err)
	}
	src := cli.LocalAddr().String()
	w.mu.Lock()
	w.advSrc[src] = true
	w.mu.Unlock()
	e.Src = src
	e.Nid = w.nid(data)
	if e.Hdr == "short" {
		e.Nid = 0
	}
	w.emit(e)
	w.wg.Add(1)
	go func() {
		defer w.wg.Done()
		if len(data) > 0 {
			cli.Write(data)
		}
		buf := make([]byte, 4096)
		cli.SetReadDeadline(time.Now().Add(200 * time.Second))
		for {
			_, err := cli.Read(buf)
			if err != nil {
				break
			}
		}
		cli.Close()
	}()
	time.Sleep(5 * time.Millisecond)
}

// template builds a fresh, never delivered, fully valid first segment of user alice.
func (w *world) template(payload, pad int) (data []byte, seg *refcodec.Segment) {
	now := time.Now().Unix()
	hashed := refcodec.HashedPassword(alice, alicePw)
	key := refcodec.KeyAt(hashed, now)
	nonce := make([]byte, 24)
	w.r.Read(nonce)
	pl := make([]byte, payload)
	w.r.Read(pl)
	pd := make([]byte, pad)
	w.r.Read(pd)
	m := refcodec.Meta{Type: refcodec.T("openSessionRequest"), Timestamp: uint32(now / 60), SID: uint32(0x10000 + w.r.Intn(1<<24)), Seq: 0}
	if w.udp {
		data = refcodec.EncodeDatagram(key, alice, nonce, m, pl, nil, pd, 0)
		s, err := refcodec.DecodeDatagram([][]byte{key}, data)
		if err != nil {
			w.t.Fatalf("template does not decode: %v", err)
		}
		return data, s
	}
	enc := &refcodec.StreamEncoder{Key: key, User: alice}
	data = enc.Encode(nonce, m, pl, nil, pd, 0)
	dec := &refcodec.StreamDecoder{Keys: [][]byte{key}}
	segs := dec.Feed(data)
	if len(segs) != 1 {
		w.t.Fatalf("template does not decode: %v", dec.Err)
	}
	return data, segs[0]
}

func (w *world) forged(user, pw, hintUser string, payload int) []byte {
	now := time.Now().Unix()
	key := refcodec.KeyAt(refcodec.HashedPassword(user, pw), now)
	nonce := make([]byte, 24)
	w.r.Read(nonce)
	pl := make([]byte, payload)
	w.r.Read(pl)
	pd := make([]byte, 7)
	m := refcodec.Meta{Type: refcodec.T("openSessionRequest"), Timestamp: uint32(now / 60), SID: uint32(0x20000 + w.r.Intn(1<<24)), Seq: 0}
	if w.udp {
		return refcodec.EncodeDatagram(key, hintUser, nonce, m, pl, nil, pd, 0)
	}
	enc := &refcodec.StreamEncoder{Key: key, User: hintUser}
	return enc.Encode(nonce, m, pl, nil, pd, 0)
}

func (w *world) every(n, quickStride int) []int {
	var out []int
	stride := quickStride
	if w.thor {
		stride = 1
	}
	off := 0
	if stride > 1 {
		off = w.r.Intn(stride)
	}
	for i := off; i < n; i += stride {
		out = append(out, i)
	}
	return out
}

// noCredential: C05 classes.
func (w *world) noCredential() {
	w.emit(event{Ev: "Phase", Cls: "no-credential probes"})
	lens := []int{1, 15, 16, 23, 24, 55, 71, 72, 73, 100, 500, 1400, 1472, 1500}
	if !w.udp {
		lens = append(lens, 0, 4000, 70000)
	} else {
		lens = append(lens, 0)
	}
	for _, l := range lens {
		for rep := 0; rep < 3; rep++ {
			b := make([]byte, l)
			w.r.Read(b)
			hdr := "full"
			if l < 72 {
				hdr = "short"
			}
			w.probe(event{Cls: fmt.Sprintf("random-%d", l), Hdr: hdr, Cred: "none", Body: "ok", Kind: "open", Sid: 1}, b)
		}
	}
	// every prefix of a genuine first segment (its own fresh template each, so that nothing but the damage can reject it)
	shapes := [][2]int{{100, 9}, {0, 12}}
	if w.thor {
		shapes = append(shapes, [2]int{1000, 200}, [2]int{1, 1})
	}
	for _, sh := range shapes {
		full, seg := w.template(sh[0], sh[1])
		ks := w.every(len(full), 3)
		// always include the region boundaries and the padding region (the end of the authenticated lengths)
		for k := seg.BodyTagEnd - 2; k < len(full); k++ {
			if k >= 0 {
				ks = append(ks, k)
			}
		}
		ks = append(ks, 23, 24, 55, 56, 71, 72, 73)
		seen := map[int]bool{}
		for _, k := range ks {
			if k < 0 || k >= len(full) || seen[k] {
				continue
			}
			seen[k] = true
			t, s := w.template(sh[0], sh[1])
			e := event{Cls: fmt.Sprintf("prefix-%d-of-%d(payload %d, padding %d)", k, len(t), sh[0], sh[1]), Hdr: "full", Cred: "reg", Body: "trunc", Kind: "open", Sid: int(s.Meta.SID)}
			if k < 72 {
				e.Hdr = "short"
			}
			w.probe(e, t[:k])
		}
		if w.udp {
			// longer than the authenticated lengths say
			for _, extra := range []int{1, 16, 300} {
				t, s := w.template(sh[0], sh[1])
				w.probe(event{Cls: fmt.Sprintf("extended+%d", extra), Hdr: "full", Cred: "reg", Body: "trunc", Kind: "open", Sid: int(s.Meta.SID)}, append(t, make([]byte, extra)...))
			}
		}
		// every single-bit mutation of the authenticated part
		_, seg0 := w.template(sh[0], sh[1])
		authEnd := seg0.BodyTagEnd
		if sh[0] == 0 {
			authEnd = seg0.MetaTagEnd
		}
		for _, bit := range w.every(authEnd*8, 7) {
			t, s := w.template(sh[0], sh[1])
			t[bit/8] ^= 1 << uint(bit%8)
			e := event{Cls: fmt.Sprintf("bitflip-%d.%d", bit/8, bit%8), Hdr: "full", Cred: "none", Body: "ok", Kind: "open", Sid: int(s.Meta.SID)}
			if bit/8 >= s.MetaTagEnd {
				e.Cred, e.Body = "reg", "bad"
			}
			w.probe(e, t)
		}
	}
	// well-formed handshakes under credentials that are not registered
	for rep := 0; rep < 4; rep++ {
		w.probe(event{Cls: "wrong-password-for-alice", Hdr: "full", Cred: "foreign", Body: "ok", Kind: "open", Sid: 7}, w.forged(alice, "not-alices-password", alice, 50*rep))
		w.probe(event{Cls: "unknown-user", Hdr: "full", Cred: "foreign", Body: "ok", Kind: "open", Sid: 7}, w.forged("mallory", "whatever", "mallory", 50*rep))
		w.probe(event{Cls: "unknown-user-hint-names-bob", Hdr: "full", Cred: "foreign", Body: "ok", Kind: "open", Sid: 7}, w.forged("mallory", "whatever", bob, 50*rep))
		w.probe(event{Cls: "empty-password-under-a-listed-name-without-credential", Hdr: "full", Cred: "foreign", Body: "ok", Kind: "open", Sid: 7}, w.forged("guest", "", "guest", 50*rep))
		w.probe(event{Cls: "bobs-password-under-alices-name", Hdr: "full", Cred: "foreign", Body: "ok", Kind: "open", Sid: 7}, w.forged(alice, bobPw, alice, 50*rep))
	}
}

// replays: C06 classes - exact copies of what the server accepted from the genuine clients so far.
func (w *world) replays(phase string) {
	w.emit(event{Ev: "Phase", Cls: "replays " + phase})
	if w.udp {
		w.mu.Lock()
		dgs := append([][]byte(nil), w.genDg...)
		w.mu.Unlock()
		// every recorded datagram (a session produces a few dozen): which kind draws a reaction depends on the server's state
		idx := make([]int, 0, len(dgs))
		for i := range dgs {
			idx = append(idx, i)
		}
		keys := allKeys(time.Now().Unix())
		for _, i := range idx {
			d := dgs[i]
			e := event{Cls: fmt.Sprintf("replay-datagram-%d-%s", i, phase), Hdr: "full", Cred: "reg", Body: "ok", Kind: "data", Sid: 0}
			if seg, err := refcodec.DecodeDatagram(keys, d); err == nil {
				e.Kind, e.Sid = kindOf(seg.Meta.Type), int(seg.Meta.SID)
			}
			w.probe(e, d)
		}
		return
	}
	w.mu.Lock()
	var streams [][]byte
	for _, b := range w.genBuf {
		streams = append(streams, append([]byte(nil), b...))
	}
	w.mu.Unlock()
	keys := allKeys(time.Now().Unix())
	for si, st := range streams {
		dec := &refcodec.StreamDecoder{Keys: keys}
		segs := dec.Feed(st)
		if len(segs) == 0 {
			continue
		}
		sid := int(segs[0].Meta.SID)
		var bounds []int
		off := 0
		for _, s := range segs {
			off += s.WireLen
			bounds = append(bounds, off)
		}
		pick := w.every(len(bounds), 3)
		pick = append(pick, 0, len(bounds)-1)
		done := map[int]bool{}
		for _, bi := range pick {
			if done[bi] {
				continue
			}
			done[bi] = true
			w.probe(event{Cls: fmt.Sprintf("replay-stream%d-first-%d-segments-%s", si, bi+1, phase), Hdr: "full", Cred: "reg", Body: "ok", Kind: "open", Sid: sid}, st[:bounds[bi]])
		}
		w.probe(event{Cls: fmt.Sprintf("replay-stream%d-whole-%s", si, phase), Hdr: "full", Cred: "reg", Body: "ok", Kind: "open", Sid: sid}, st)
	}
}

func runWorld(t *testing.T, tr string, seed int64, thorough bool) []event {
	var out []event
	synctest.Test(t, func(t *testing.T) {
		w := &world{t: t, tr: tr, udp: tr == "udp", nids: map[string]int{}, advSrc: map[string]bool{}, pnet: simnet.NewPacketNet(), snet: simnet.NewStreamNet(),
			connSrc: map[int]string{}, genDec: map[int]*refcodec.StreamDecoder{}, genBuf: map[int][]byte{}, r: rand.New(rand.NewSource(seed)), t0: time.Now(), thor: thorough}
		w.hooks()
		w.startServer()
		time.Sleep(100 * time.Millisecond)

		g1 := w.genuine(alice, alicePw, "10.2.0.1")
		g1.roundtrip(600, "first exchange")
		w.noCredential()
		g1.roundtrip(20000, "exchange after the probes")
		w.replays("while-original-open")
		g1.roundtrip(500, "exchange after replays")
		g1.close()
		time.Sleep(2 * time.Second)
		w.replays("after-original-closed")
		time.Sleep(50 * time.Second)
		w.replays("50s-later")
		g2 := w.genuine(bob, bobPw, "10.2.0.2")
		g2.roundtrip(2000, "fresh session after all replays")
		time.Sleep(20 * time.Second)
		w.replays("of-both-sessions")
		g2.roundtrip(100, "second exchange")
		g2.close()
		w.wg.Wait()
		time.Sleep(130 * time.Second) // a session the adversary should never have obtained idles out before the server is closed
		w.emit(event{Ev: "Phase", Cls: "end"})
		w.smux.Close()
		time.Sleep(150 * time.Second)
		w.mu.Lock()
		out = append(out, w.evs...)
		w.mu.Unlock()
	})
	return out
}

func TestIngress(t *testing.T) {
	path := os.Getenv("VERIF_OUT")
	if path == "" {
		t.Skip("VERIF_OUT not set")
	}
	seed, _ := strconv.ParseInt(os.Getenv("VERIF_SEED"), 10, 64)
	thorough := os.Getenv("VERIF_TIER") == "thorough"
	trs := strings.Split(os.Getenv("VERIF_TRANSPORTS"), ",")
	if os.Getenv("VERIF_TRANSPORTS") == "" {
		trs = []string{"udp", "tcp"}
	}
	f, _ := os.Create(path)
	defer f.Close()
	enc := json.NewEncoder(f)
	for _, tr := range trs {
		evs := runWorld(t, tr, seed+int64(len(tr)), thorough)
		for i := range evs {
			enc.Encode(&evs[i])
		}
		t.Logf("%s: %d events", tr, len(evs))
	}
	_ = sha256.Sum256
}

// forgedAs builds a complete, well-formed first segment under (user, pw): valid while that user is registered, a foreign
// credential once a reload removed it.
func (w *world) reloadWorld() {
	set := func(names ...string) {
		m := map[string]*appctlpb.User{}
		for _, n := range names {
			pw := alicePw
			if n == bob {
				pw = bobPw
			}
			m[n] = &appctlpb.User{Name: proto.String(n), Password: proto.String(pw)}
		}
		w.smux.SetServerUsers(m)
		w.emit(event{Ev: "Phase", Cls: "reload to " + strings.Join(names, "+")})
		time.Sleep(10 * time.Millisecond)
	}
	g := w.genuine(alice, alicePw, "10.2.0.1")
	g.roundtrip(700, "before any reload")
	g.close()
	set(bob)
	for rep := 0; rep < 3; rep++ {
		w.probe(event{Cls: "removed-user-alice", Hdr: "full", Cred: "foreign", Body: "ok", Kind: "open", Sid: 7}, w.forged(alice, alicePw, alice, 40*rep))
	}
	gb := w.genuine(bob, bobPw, "10.2.0.2")
	gb.roundtrip(700, "bob after alice was removed")
	gb.close()
	set() // a reload that leaves no user at all
	for rep := 0; rep < 3; rep++ {
		w.probe(event{Cls: "removed-user-bob-after-empty-reload", Hdr: "full", Cred: "foreign", Body: "ok", Kind: "open", Sid: 7}, w.forged(bob, bobPw, bob, 40*rep))
		w.probe(event{Cls: "removed-user-alice-after-empty-reload", Hdr: "full", Cred: "foreign", Body: "ok", Kind: "open", Sid: 7}, w.forged(alice, alicePw, alice, 40*rep))
	}
	set(alice)
	for rep := 0; rep < 3; rep++ {
		w.probe(event{Cls: "removed-user-bob", Hdr: "full", Cred: "foreign", Body: "ok", Kind: "open", Sid: 7}, w.forged(bob, bobPw, bob, 40*rep))
	}
	ga := w.genuine(alice, alicePw, "10.2.0.3")
	ga.roundtrip(700, "alice after she was registered again")
	ga.close()
}

func TestReloadSilence(t *testing.T) {
	path := os.Getenv("VERIF_OUT")
	if path == "" {
		t.Skip("VERIF_OUT not set")
	}
	seed, _ := strconv.ParseInt(os.Getenv("VERIF_SEED"), 10, 64)
	f, _ := os.Create(path)
	defer f.Close()
	enc := json.NewEncoder(f)
	for _, tr := range []string{"udp", "tcp"} {
		var out []event
		synctest.Test(t, func(t *testing.T) {
			w := &world{t: t, tr: tr, udp: tr == "udp", nids: map[string]int{}, advSrc: map[string]bool{}, pnet: simnet.NewPacketNet(), snet: simnet.NewStreamNet(),
				connSrc: map[int]string{}, genDec: map[int]*refcodec.StreamDecoder{}, genBuf: map[int][]byte{}, r: rand.New(rand.NewSource(seed)), t0: time.Now()}
			w.hooks()
			w.startServer()
			time.Sleep(100 * time.Millisecond)
			w.reloadWorld()
			w.wg.Wait()
			time.Sleep(130 * time.Second) // a session the adversary should never have obtained idles out before the server is closed
			w.emit(event{Ev: "Phase", Cls: "end"})
			w.smux.Close()
			time.Sleep(150 * time.Second)
			w.mu.Lock()
			out = append(out, w.evs...)
			w.mu.Unlock()
		})
		for i := range out {
			enc.Encode(&out[i])
		}
	}
}
