INIT Init
NEXT Next
INVARIANTS Alive VictimServed
CHECK_DEADLOCK FALSE
