"""Shared machinery for the mieru TLA+ model-based checks.

Every check is a python module lib/checks/cXX.py exposing run(ctx) where ctx is
a Ctx below.  A check never decides a verdict from the model alone: a
VIOLATION is only printed for something observed on the real code (see
DESIGN.md section 2.2).  Exit codes: 0 held, 1 violation, 2 inconclusive.
"""
import json
import os
import re
import shutil
import subprocess
import sys
import tempfile
import time

VERIF = os.path.dirname(os.path.dirname(os.path.abspath(__file__)))
REPO = os.environ.get("VERIF_REPO", "/repo")
SPEC = os.path.join(VERIF, "spec")
HARNESS = os.path.join(VERIF, "harness")
EVIDENCE = os.path.join(VERIF, "evidence")
REPLAYS = os.path.join(VERIF, "replays")
KNOWN = os.path.join(VERIF, "known_findings.json")
TLA_JAR = "/opt/veriftools/tla/tla2tools.jar:/opt/veriftools/tla/CommunityModules-deps.jar"
GO = os.environ.get("VERIF_GO", "go1.26.8")


class Inconclusive(Exception):
    pass


class Violation(Exception):
    def __init__(self, what, replay=None, signature=None):
        super().__init__(what)
        self.what = what
        self.replay = replay
        self.signature = signature


def go_env(extra=None):
    env = dict(os.environ)
    env.update({
        "GOFLAGS": "-mod=mod", "GOPROXY": "off", "GOSUMDB": "off",
        "GOTOOLCHAIN": "local", "CGO_ENABLED": env.get("CGO_ENABLED", "1"),
    })
    if extra:
        env.update({k: str(v) for k, v in extra.items()})
    return env


def scratch_dir(prefix="verif-"):
    return tempfile.mkdtemp(prefix=prefix, dir=os.environ.get("VERIF_TMP", "/tmp"))


class TLCResult:
    def __init__(self):
        self.rc = None
        self.out = ""
        self.generated = 0
        self.distinct = 0
        self.depth = 0
        self.violated = None      # name of violated invariant / property
        self.error = None         # other error text
        self.prints = []          # decoded PrintT payloads (json) tagged "BEH"/others
        self.coverage = {}        # action -> count
        self.wall = 0.0
        self.trace = None         # counterexample (list of states as text)
        self.finished = False

    def ok(self):
        return self.finished and self.violated is None and self.error is None


_PRINT_RE = re.compile(r'^<<"([A-Z]+)", "(.*)">>$')


def _unescape(s):
    out = []
    i = 0
    while i < len(s):
        c = s[i]
        if c == "\\" and i + 1 < len(s):
            n = s[i + 1]
            out.append({"n": "\n", "t": "\t"}.get(n, n))
            i += 2
        else:
            out.append(c)
            i += 1
    return "".join(out)


def tlc(module, cfg=None, workers="auto", simulate=None, depth=None, seed=None,
        timeout=600, env=None, coverage=False, deadlock=True, extra=None,
        heap="8g", dfs=False, keep_out=False, tags=("BEH",), cfg_text=None):
    """Run TLC on spec/<module>.tla with spec/<cfg>.cfg in a scratch copy."""
    res = TLCResult()
    sd = scratch_dir("verif-tlc-")
    try:
        for f in os.listdir(SPEC):
            if f.endswith(".tla") or f.endswith(".cfg") or f.endswith(".json"):
                shutil.copy(os.path.join(SPEC, f), sd)
        cfg = cfg or module
        if cfg_text is not None:
            with open(os.path.join(sd, cfg + ".cfg"), "w") as f:
                f.write(cfg_text)
        javaopts = ["-XX:+UseParallelGC", "-Xmx" + heap, "-Xss64m"]
        if dfs:
            javaopts.append("-Dtlc2.tool.queue.IStateQueue=StateDeque")
        cmd = ["timeout", "-k", "10", str(timeout), "java"] + javaopts + [
            "-cp", TLA_JAR, "tlc2.TLC", "-metadir", os.path.join(sd, "meta"),
            "-workers", str(workers), "-config", cfg + ".cfg"]
        if not deadlock:
            cmd.append("-deadlock")
        if coverage:
            cmd += ["-coverage", "1"]
        if simulate is not None:
            cmd += ["-simulate", "num=%d" % simulate]
            if depth:
                cmd += ["-depth", str(depth)]
        if seed is not None:
            cmd += ["-seed", str(seed)]
        if extra:
            cmd += list(extra)
        cmd.append(module)
        e = dict(os.environ)
        e.pop("JAVA_TOOL_OPTIONS", None)
        if env:
            e.update({k: str(v) for k, v in env.items()})
        t0 = time.time()
        p = subprocess.run(cmd, cwd=sd, env=e, stdout=subprocess.PIPE,
                           stderr=subprocess.STDOUT, text=True, errors="replace")
        res.wall = time.time() - t0
        res.rc = p.returncode
        out = p.stdout
        res.out = out if keep_out else out[-20000:]
        lines = out.splitlines()
        # TLC's pretty printer may break a long tuple over two lines:  << "TAG",\n   "json" >>
        joined = []
        k = 0
        while k < len(lines):
            ln = lines[k]
            m2 = re.match(r'^<< "([A-Z]+)",$', ln)
            if m2 and k + 1 < len(lines):
                nxt = lines[k + 1].strip()
                if nxt.startswith('"') and nxt.endswith('>>'):
                    joined.append('<<"%s", %s>>' % (m2.group(1), nxt[:-2].rstrip()))
                    k += 2
                    continue
            joined.append(ln)
            k += 1
        for line in joined:
            m = _PRINT_RE.match(line)
            if m and m.group(1) in tags:
                try:
                    res.prints.append((m.group(1), json.loads(_unescape(m.group(2)))))
                except Exception:
                    res.prints.append((m.group(1), _unescape(m.group(2))))
                continue
            m = re.search(r"(\d+) states generated, (\d+) distinct states found", line)
            if m:
                res.generated = int(m.group(1))
                res.distinct = int(m.group(2))
            m = re.search(r"The depth of the complete state graph search is (\d+)", line)
            if m:
                res.depth = int(m.group(1))
            m = re.search(r"Invariant (\S+) is violated", line)
            if m:
                res.violated = m.group(1)
            m = re.search(r"Action property (\S+) is violated", line)
            if m:
                res.violated = m.group(1)
            if "Temporal properties were violated" in line:
                res.violated = res.violated or "TemporalProperty"
            if "Deadlock reached" in line:
                res.violated = res.violated or "Deadlock"
            if "The postcondition" in line and "false" in line.lower():
                res.violated = res.violated or "Postcondition"
            m = re.match(r"^<(\w+) line \d+, col \d+ to line \d+, col \d+ of module (\w+)>: (\d+):(\d+)", line)
            if m:
                res.coverage[m.group(2) + "." + m.group(1)] = int(m.group(4))
            if "Model checking completed" in line or "Finished in" in line:
                res.finished = True
            if line.startswith("Error:") and res.error is None and res.violated is None:
                res.error = line
        if res.violated:
            res.error = None
            res.trace = _extract_trace(out)
        if p.returncode == 124 or p.returncode == 137:
            res.error = "timeout after %ss" % timeout
            res.finished = False
        if simulate is not None and res.error is None and res.violated is None:
            res.finished = True
        return res
    finally:
        shutil.rmtree(sd, ignore_errors=True)


def _extract_trace(out):
    states = []
    cur = None
    for line in out.splitlines():
        if re.match(r"^State \d+: ", line):
            cur = [line]
            states.append(cur)
        elif cur is not None:
            if line.strip() == "" or re.match(r"^\d+ states generated", line) or line.startswith("Finished"):
                cur = None
            else:
                cur.append(line)
    return ["\n".join(s) for s in states]


def sany(module):
    sd = scratch_dir("verif-sany-")
    try:
        for f in os.listdir(SPEC):
            if f.endswith(".tla"):
                shutil.copy(os.path.join(SPEC, f), sd)
        p = subprocess.run(["java", "-cp", TLA_JAR, "tla2sany.SANY", module + ".tla"], cwd=sd,
                           stdout=subprocess.PIPE, stderr=subprocess.STDOUT, text=True)
        return p.returncode == 0 and "Semantic errors" not in p.stdout and "***Parse Error***" not in p.stdout, p.stdout
    finally:
        shutil.rmtree(sd, ignore_errors=True)


def go_test(pkg, run, env=None, timeout=900, race=False, tags="verif", count=1, real_go=False, extra=None, hostname=None):
    """Run a harness driver (a Go test in /verif/harness) against /repo's tree."""
    gobin = "go" if real_go else GO
    cmd = ["timeout", "-k", "10", str(timeout), gobin, "test", "-tags", tags, "-count=%d" % count,
           "-timeout", "%ds" % max(timeout - 5, 10), "-run", run]
    if race:
        cmd.append("-race")
    if extra:
        cmd += extra
    cmd.append(pkg)
    if hostname:
        # the same driver on "another host": a private UTS namespace with a different host name
        cmd = ["unshare", "--uts", "sh", "-c", 'hostname "$0" && exec "$@"', hostname] + cmd
    e = go_env(env)
    t0 = time.time()
    p = subprocess.run(cmd, cwd=HARNESS, env=e, stdout=subprocess.PIPE, stderr=subprocess.STDOUT,
                       text=True, errors="replace")
    return p.returncode, p.stdout, time.time() - t0


def go_build_check():
    """The harness must build against the current /repo tree; otherwise inconclusive."""
    p = subprocess.run([GO, "vet", "-tags", "verif", "./..."], cwd=HARNESS, env=go_env(),
                       stdout=subprocess.PIPE, stderr=subprocess.STDOUT, text=True)
    return p.returncode == 0, p.stdout


def load_known():
    try:
        with open(KNOWN) as f:
            return json.load(f).get("findings", [])
    except FileNotFoundError:
        return []


def read_ndjson(path):
    out = []
    with open(path) as f:
        for line in f:
            line = line.strip()
            if line:
                out.append(json.loads(line))
    return out


def write_ndjson(path, rows):
    with open(path, "w") as f:
        for r in rows:
            f.write(json.dumps(r, separators=(",", ":"), sort_keys=True) + "\n")


def validate_records(ctx, module, cfg, path, props, describe, wd, drift=False, max_reports=3, timeout=1500, what=None):
    """TLC-validate a file of records (one state per line, deterministic monitor `module`/`cfg`).
    On a violated invariant in `props` the offending record is reported through describe(record, invariant) -> (text, signature)
    and validation continues with the remaining records.  drift=True: the invariants are conformance only (never a VIOLATION)."""
    import re as _re
    remaining = path
    total = len(read_ndjson(path))
    for attempt in range(max_reports + 40):
        r = tlc(module, cfg, workers=1, timeout=timeout, env={"VERIF_TRACE": remaining}, keep_out=True)
        if r.violated in props:
            m = _re.findall(r"/\\ l = (\d+)", r.trace[-1] if r.trace else "")
            line = int(m[-1]) - 1 if m else 1
            cur = read_ndjson(remaining)
            rec = cur[line - 1]
            d = describe(rec, r.violated)
            rest = cur[:line - 1] + cur[line:]      # drop only the offending record: the monitor's state stays consistent
            if d is None:      # not this check's business: keep scanning
                if not rest:
                    return
                remaining = os.path.join(wd, "rest_%s_%d.ndjson" % (cfg, attempt))
                write_ndjson(remaining, rest)
                continue
            text, sig = d
            if drift:
                ctx.drift.append(text)
            else:
                rp = ctx.save_replay("rec_%s_%d.json" % (r.violated, attempt), rec)
                ctx.report(text, rp, sig)
            rest = cur[:line - 1] + cur[line:]      # drop only the offending record: the monitor's state stays consistent
            if not rest or (drift and len(ctx.drift) >= max_reports) or (not drift and len(ctx.violations) >= max_reports):
                return
            remaining = os.path.join(wd, "rest_%s_%d.ndjson" % (cfg, attempt))
            write_ndjson(remaining, rest)
            continue
        if r.violated or r.error or not r.finished:
            raise Inconclusive("%s/%s: %s %s\n%s" % (module, cfg, r.violated, r.error, r.out[-1500:]))
        if not drift:
            ctx.coverage["states"] += r.distinct
            ctx.coverage["traces_validated_against_impl"] += max(r.distinct - 1, 0)
        return


class Ctx:
    """Per-run context: accumulates evidence and verdict for one property."""

    def __init__(self, pid, tier, seed):
        self.pid = pid
        self.tier = tier
        self.seed = seed
        self.t0 = time.time()
        self.coverage = {"states": 0, "transitions": 0, "traces_validated_against_impl": 0,
                         "samples": [], "evaluations": 0, "distinct_nontrivial": 0, "rule": ""}
        self.assumptions = []
        self.violations = []       # (what, replay, signature)
        self.known_hits = []
        self.drift = []
        self.notes = []
        self.level = "model_checking"
        self.known = [k for k in load_known() if k.get("property") == pid]
        os.makedirs(os.path.join(REPLAYS, pid), exist_ok=True)

    # -- bookkeeping -------------------------------------------------------
    def thorough(self):
        return self.tier == "thorough"

    def add_tlc(self, res, what):
        if res.error or not res.finished:
            raise Inconclusive("TLC %s: %s\n%s" % (what, res.error or "did not finish", res.out[-3000:]))
        self.coverage["states"] += res.distinct
        self.coverage["transitions"] += res.generated
        self.coverage.setdefault("tlc_runs", []).append(
            {"what": what, "generated": res.generated, "distinct": res.distinct,
             "depth": res.depth, "wall_s": round(res.wall, 2)})

    def sample(self, s, cap=6):
        if len(self.coverage["samples"]) < cap:
            self.coverage["samples"].append(s)

    def replay_path(self, name):
        return os.path.join(REPLAYS, self.pid, name)

    def save_replay(self, name, obj):
        p = self.replay_path(name)
        with open(p, "w") as f:
            if isinstance(obj, str):
                f.write(obj)
            else:
                json.dump(obj, f, indent=1, sort_keys=True)
        return p

    def report(self, what, replay, signature):
        """Report a property violation observed on the real code."""
        for k in self.known:
            if k.get("status") == "known" and k.get("signature") == signature:
                if signature not in [h[0] for h in self.known_hits]:
                    self.known_hits.append((signature, k.get("what", what)))
                return False
        self.violations.append((what, replay, signature))
        return True

    def finish(self):
        wall = time.time() - self.t0
        cov = self.coverage
        if not cov.get("rule"):
            cov["rule"] = "see explanation"
        if self.drift:
            cov["conformance_drift"] = self.drift[:20]
        if self.notes:
            cov["notes"] = self.notes
        if self.known_hits:
            cov["known_findings_seen"] = [h[0] for h in self.known_hits]
        if not cov["samples"]:
            cov["samples"] = ["(none)"]
        ev = {"property_id": self.pid, "tier": self.tier, "seed": self.seed, "level": self.level,
              "coverage": cov, "assumptions": self.assumptions, "wall_s": round(wall, 2),
              "violations": len(self.violations)}
        os.makedirs(EVIDENCE, exist_ok=True)
        with open(os.path.join(EVIDENCE, self.pid + ".json"), "w") as f:
            json.dump(ev, f, indent=1)
        for sig, what in self.known_hits:
            print("KNOWN-FINDING: property=%s %s [%s]" % (self.pid, what, sig))
        for d in self.drift[:5]:
            print("CONFORMANCE-DRIFT property=%s %s" % (self.pid, d))
        if self.violations:
            for what, replay, sig in self.violations[:10]:
                print("VIOLATION property=%s replay=%s" % (self.pid, replay))
                print("  what: %s [%s]" % (what, sig))
            return 1
        print("OK property=%s tier=%s seed=%d states=%d traces=%d evals=%d wall=%.1fs" % (
            self.pid, self.tier, self.seed, cov["states"], cov["traces_validated_against_impl"],
            cov["evaluations"], wall))
        return 0
