CONSTANTS
  MaxU = 4
  MaxSteps = 14
  Dialers = {1, 2}
SPECIFICATION Spec
INVARIANTS NoSessionOnClosedUnderlay ClosedOnlyIfDisabled DumpHist
CHECK_DEADLOCK FALSE
