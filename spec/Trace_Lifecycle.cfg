CONSTANTS
  Slack = 1500
  LocalBound = 4000
  RemoteBound = 9000
  FailBound = 9000
  CloseBound = 9000
SPECIFICATION Spec
INVARIANTS NoSpuriousTimeout DeadlineBounds LocalCloseReleases RemoteCloseReleases FailureReleases ClosePrompt NothingLeftRunning
POSTCONDITION TraceAccepted
CHECK_DEADLOCK FALSE
