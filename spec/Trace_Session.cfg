SPECIFICATION Spec
INVARIANTS ReadExact CloseNoTrunc NoSpuriousEOF Decodable AckSound RetxSame SeqDense TxContiguous FitsMTU FitsFields PadOK Completes Attributed
POSTCONDITION TraceAccepted
CHECK_DEADLOCK FALSE
