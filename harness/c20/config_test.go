// Binds spec/ConfigStore.tla to pkg/appctl: abstract (base, patch) cases are concretised with adversarial strings, applied through
// the real functions on both file formats, loaded back and projected to the abstract record again.
package c20

import (
	"encoding/base64"
	"encoding/hex"
	"encoding/json"
	"fmt"
	"os"
	"path/filepath"
	"strings"
	"testing"

	"github.com/enfein/mieru/v3/pkg/appctl"
	"github.com/enfein/mieru/v3/pkg/appctl/appctlcommon"
	pb "github.com/enfein/mieru/v3/pkg/appctl/appctlpb"
	"github.com/enfein/mieru/v3/pkg/cipher"
	"github.com/enfein/mieru/v3/pkg/common"
	"google.golang.org/protobuf/proto"

	"verifharness/vt"
)

type abstract struct {
	S    map[string]string `json:"s"`
	Coll map[string]string `json:"coll"`
}
type ccase struct {
	Side  string   `json:"side"`
	Base  abstract `json:"base"`
	Patch abstract `json:"patch"`
	Want  abstract `json:"want"`
}

var keyName = map[string]string{"k1": "default", "k2": "p 2/ü@:#?&%+=;"}
var userName = map[string]string{"k1": "alice@example", "k2": "bob ü:/?#%&+=" + strings.Repeat("x", 40)}

func profile(key, item string) *pb.ClientProfile {
	p := &pb.ClientProfile{ProfileName: proto.String(keyName[key])}
	if item == "A" {
		p.User = &pb.User{Name: proto.String("user@a"), Password: proto.String("p:a/ss?#%&+ ü=")}
		p.Servers = []*pb.ServerEndpoint{{IpAddress: proto.String("1.2.3.4"), PortBindings: []*pb.PortBinding{{Port: proto.Int32(443), Protocol: pb.TransportProtocol_TCP.Enum()}}}}
		p.Mtu = proto.Int32(1400)
	} else {
		p.User = &pb.User{Name: proto.String(strings.Repeat("n", 60) + "@:/?"), Password: proto.String(strings.Repeat("%", 63) + "#")}
		p.Servers = []*pb.ServerEndpoint{
			{DomainName: proto.String("example.com"), PortBindings: []*pb.PortBinding{{PortRange: proto.String("2000-2010"), Protocol: pb.TransportProtocol_UDP.Enum()}}},
			{IpAddress: proto.String("2001:db8::1"), PortBindings: []*pb.PortBinding{{Port: proto.Int32(8443), Protocol: pb.TransportProtocol_TCP.Enum()}, {Port: proto.Int32(65535), Protocol: pb.TransportProtocol_UDP.Enum()}}},
			// a range of one port is a valid range
			{IpAddress: proto.String("5.6.7.8"), PortBindings: []*pb.PortBinding{{PortRange: proto.String("8964-8964"), Protocol: pb.TransportProtocol_TCP.Enum()}}}}
		p.Multiplexing = &pb.MultiplexingConfig{Level: pb.MultiplexingLevel_MULTIPLEXING_HIGH.Enum()}
		p.HandshakeMode = pb.HandshakeMode_HANDSHAKE_NO_WAIT.Enum()
		p.TrafficPattern = &pb.TrafficPattern{Seed: proto.Int32(7), Padding: &pb.PaddingPattern{MaxEndPaddingLen: proto.Int32(0)}}
	}
	return p
}

func user(key, item string) *pb.User {
	u := &pb.User{Name: proto.String(userName[key])}
	if item == "A" {
		u.Password = proto.String("secret pass:/?#%&+ü")
	} else {
		u.Password = proto.String(strings.Repeat("Z", 64))
		// an entry edited from a configuration dump: the new password next to the hash of the old one
		u.HashedPassword = proto.String(hex.EncodeToString(cipher.HashPassword([]byte("old password"), []byte(userName[key]))))
		u.AllowPrivateIP = proto.Bool(true)
		u.Quotas = []*pb.Quota{{Days: proto.Int32(30), Megabytes: proto.Int32(1024)}}
	}
	return u
}

func buildClient(a abstract) *pb.ClientConfig {
	c := &pb.ClientConfig{}
	for _, k := range []string{"k1", "k2"} {
		if it := a.Coll[k]; it != "absent" {
			c.Profiles = append(c.Profiles, profile(k, it))
		}
	}
	v := func(f string) int { return map[string]int{"unset": 0, "v1": 1, "v2": 2}[a.S[f]] }
	if x := v("activeProfile"); x > 0 {
		c.ActiveProfile = proto.String(keyName[[]string{"", "k1", "k2"}[x]])
	}
	if x := v("socks5Port"); x > 0 {
		c.Socks5Port = proto.Int32(int32(1079 + x))
	}
	if x := v("loggingLevel"); x > 0 {
		c.LoggingLevel = []pb.LoggingLevel{0, pb.LoggingLevel_INFO, pb.LoggingLevel_DEBUG}[x].Enum()
	}
	if x := v("rpcPort"); x > 0 {
		c.RpcPort = proto.Int32(int32(8963 + x))
	}
	if x := v("httpProxyPort"); x > 0 {
		c.HttpProxyPort = proto.Int32(int32(8079 + x))
	}
	if x := v("socks5ListenLAN"); x > 0 {
		c.Socks5ListenLAN = proto.Bool(x == 1)
	}
	if x := v("httpProxyListenLAN"); x > 0 {
		c.HttpProxyListenLAN = proto.Bool(x == 1)
	}
	if x := v("socks5Authentication"); x > 0 {
		c.Socks5Authentication = []*pb.Auth{{User: proto.String("u1"), Password: proto.String("p1")}}
		if x == 2 {
			c.Socks5Authentication = append(c.Socks5Authentication, &pb.Auth{User: proto.String("u 2:@"), Password: proto.String("p@:/ ü")})
		}
	}
	if x := v("advancedSettings"); x > 0 {
		if x == 1 {
			c.AdvancedSettings = &pb.ClientAdvancedSettings{NoCheckUpdate: proto.Bool(true)}
		} else {
			c.AdvancedSettings = &pb.ClientAdvancedSettings{MetricsLoggingInterval: proto.String("30s")}
		}
	}
	return c
}

func projectClient(c *pb.ClientConfig) abstract {
	a := abstract{S: map[string]string{}, Coll: map[string]string{"k1": "absent", "k2": "absent"}}
	for _, p := range c.GetProfiles() {
		for _, k := range []string{"k1", "k2"} {
			if p.GetProfileName() == keyName[k] {
				a.Coll[k] = "other"
				for _, it := range []string{"A", "B"} {
					want := profile(k, it)
					// the client store keeps the plaintext password and adds its hash
					want.User.HashedPassword = proto.String(hex.EncodeToString(cipher.HashPassword([]byte(want.User.GetPassword()), []byte(want.User.GetName()))))
					if proto.Equal(p, want) || proto.Equal(p, profile(k, it)) {
						a.Coll[k] = it
					}
				}
			}
		}
	}
	pick := func(f string, set bool, is1, is2 bool) {
		switch {
		case !set:
			a.S[f] = "unset"
		case is1:
			a.S[f] = "v1"
		case is2:
			a.S[f] = "v2"
		default:
			a.S[f] = "other"
		}
	}
	pick("activeProfile", c.GetActiveProfile() != "", c.GetActiveProfile() == keyName["k1"], c.GetActiveProfile() == keyName["k2"])
	pick("socks5Port", c.GetSocks5Port() != 0, c.GetSocks5Port() == 1080, c.GetSocks5Port() == 1081)
	pick("loggingLevel", c.GetLoggingLevel() != 0, c.GetLoggingLevel() == pb.LoggingLevel_INFO, c.GetLoggingLevel() == pb.LoggingLevel_DEBUG)
	pick("rpcPort", c.RpcPort != nil, c.GetRpcPort() == 8964, c.GetRpcPort() == 8965)
	pick("httpProxyPort", c.HttpProxyPort != nil, c.GetHttpProxyPort() == 8080, c.GetHttpProxyPort() == 8081)
	pick("socks5ListenLAN", c.Socks5ListenLAN != nil, c.GetSocks5ListenLAN(), !c.GetSocks5ListenLAN())
	pick("httpProxyListenLAN", c.HttpProxyListenLAN != nil, c.GetHttpProxyListenLAN(), !c.GetHttpProxyListenLAN())
	au := c.GetSocks5Authentication()
	pick("socks5Authentication", len(au) > 0, len(au) == 1 && au[0].GetUser() == "u1" && au[0].GetPassword() == "p1",
		len(au) == 2 && au[1].GetUser() == "u 2:@" && au[1].GetPassword() == "p@:/ ü")
	ad := c.GetAdvancedSettings()
	pick("advancedSettings", ad != nil, ad.GetNoCheckUpdate() && ad.GetMetricsLoggingInterval() == "", !ad.GetNoCheckUpdate() && ad.GetMetricsLoggingInterval() == "30s")
	return a
}

func buildServer(a abstract) *pb.ServerConfig {
	s := &pb.ServerConfig{}
	for _, k := range []string{"k1", "k2"} {
		if it := a.Coll[k]; it != "absent" {
			s.Users = append(s.Users, user(k, it))
		}
	}
	v := func(f string) int { return map[string]int{"unset": 0, "v1": 1, "v2": 2}[a.S[f]] }
	if x := v("portBindings"); x > 0 {
		s.PortBindings = []*pb.PortBinding{{Port: proto.Int32(2012), Protocol: pb.TransportProtocol_TCP.Enum()}}
		if x == 2 {
			s.PortBindings = append(s.PortBindings, &pb.PortBinding{PortRange: proto.String("3000-3010"), Protocol: pb.TransportProtocol_UDP.Enum()})
		}
	}
	if x := v("loggingLevel"); x > 0 {
		s.LoggingLevel = []pb.LoggingLevel{0, pb.LoggingLevel_INFO, pb.LoggingLevel_DEBUG}[x].Enum()
	}
	if x := v("mtu"); x > 0 {
		s.Mtu = proto.Int32(int32(1279 + x*100))
	}
	if x := v("egress"); x > 0 {
		s.Egress = &pb.Egress{Rules: []*pb.EgressRule{{IpRanges: []string{"10.0.0.0/8"}, Action: pb.EgressAction_REJECT.Enum()}}}
		if x == 2 {
			s.Egress = &pb.Egress{Proxies: []*pb.EgressProxy{{Name: proto.String("px"), Protocol: pb.ProxyProtocol_SOCKS5_PROXY_PROTOCOL.Enum(), Host: proto.String("::1"), Port: proto.Int32(1080),
				Socks5Authentication: &pb.Auth{User: proto.String("u@:"), Password: proto.String("p /")}}},
				Rules: []*pb.EgressRule{{DomainNames: []string{"*"}, Action: pb.EgressAction_PROXY.Enum(), ProxyNames: []string{"px"}}}}
		}
	}
	if x := v("dns"); x > 0 {
		s.Dns = &pb.DNS{DualStack: pb.DualStack_PREFER_IPv4.Enum()}
		if x == 2 {
			s.Dns = &pb.DNS{Hosts: map[string]string{"Example.COM": "192.0.2.1", "v6.example": "2001:db8::2"}}
		}
	}
	if x := v("trafficPattern"); x > 0 {
		s.TrafficPattern = &pb.TrafficPattern{Seed: proto.Int32(int32(x))}
		if x == 2 {
			s.TrafficPattern.UnlockAll = proto.Bool(true)
			s.TrafficPattern.Nonce = &pb.NoncePattern{Type: pb.NonceType_NONCE_TYPE_FIXED.Enum(), CustomHexStrings: []string{"00010203"}}
		}
	}
	if x := v("advancedSettings"); x > 0 {
		s.AdvancedSettings = &pb.ServerAdvancedSettings{UserHintIsMandatory: proto.Bool(x == 1)}
		if x == 2 {
			s.AdvancedSettings.MetricsLoggingInterval = proto.String("1m")
		}
	}
	return s
}

func projectServer(s *pb.ServerConfig) (abstract, bool) {
	a := abstract{S: map[string]string{}, Coll: map[string]string{"k1": "absent", "k2": "absent"}}
	plaintext := false
	for _, u := range s.GetUsers() {
		if u.GetPassword() != "" {
			plaintext = true
		}
		for _, k := range []string{"k1", "k2"} {
			if u.GetName() == userName[k] {
				a.Coll[k] = "other"
				for _, it := range []string{"A", "B"} {
					want := user(k, it)
					want.HashedPassword = proto.String(hex.EncodeToString(cipher.HashPassword([]byte(want.GetPassword()), []byte(want.GetName()))))
					want.Password = proto.String("")
					got := proto.Clone(u).(*pb.User)
					if got.Password == nil {
						want.Password = nil
					}
					if proto.Equal(got, want) {
						a.Coll[k] = it
					}
				}
			}
		}
	}
	eq := func(f string, set bool, got, w1, w2 proto.Message) {
		switch {
		case !set:
			a.S[f] = "unset"
		case proto.Equal(got, w1):
			a.S[f] = "v1"
		case proto.Equal(got, w2):
			a.S[f] = "v2"
		default:
			a.S[f] = "other"
		}
	}
	ref1, ref2 := buildServer(abstract{S: allv("v1")}), buildServer(abstract{S: allv("v2")})
	pbs := func(x []*pb.PortBinding) proto.Message { return &pb.ServerConfig{PortBindings: x} }
	eq("portBindings", len(s.GetPortBindings()) > 0, pbs(s.GetPortBindings()), pbs(ref1.PortBindings), pbs(ref2.PortBindings))
	lv := func(l pb.LoggingLevel) proto.Message { return &pb.ServerConfig{LoggingLevel: l.Enum()} }
	eq("loggingLevel", s.GetLoggingLevel() != 0, lv(s.GetLoggingLevel()), lv(pb.LoggingLevel_INFO), lv(pb.LoggingLevel_DEBUG))
	mt := func(m int32) proto.Message { return &pb.ServerConfig{Mtu: proto.Int32(m)} }
	eq("mtu", s.GetMtu() != 0, mt(s.GetMtu()), mt(1379), mt(1479))
	eq("egress", s.Egress != nil, s.GetEgress(), ref1.Egress, ref2.Egress)
	eq("dns", s.Dns != nil, s.GetDns(), ref1.Dns, ref2.Dns)
	eq("trafficPattern", s.TrafficPattern != nil, s.GetTrafficPattern(), ref1.TrafficPattern, ref2.TrafficPattern)
	eq("advancedSettings", s.AdvancedSettings != nil, s.GetAdvancedSettings(), ref1.AdvancedSettings, ref2.AdvancedSettings)
	return a, plaintext
}

func allv(v string) map[string]string {
	m := map[string]string{}
	for _, f := range []string{"portBindings", "loggingLevel", "mtu", "egress", "dns", "trafficPattern", "advancedSettings"} {
		m[f] = v
	}
	return m
}

func guard(f func() error) (err error, panicked string) {
	defer func() {
		if r := recover(); r != nil {
			panicked = fmt.Sprint(r)
		}
	}()
	return f(), ""
}

// TestApply: every (base, patch) case on both file formats.
func TestApply(t *testing.T) {
	out := vt.MustCreate(t, "VERIF_OUT")
	defer out.Close()
	dir := t.TempDir()
	n := 0
	vt.ReadLines(t, "VERIF_IN", func(line []byte) {
		var c ccase
		if err := json.Unmarshal(line, &c); err != nil {
			t.Fatalf("bad case: %v", err)
		}
		for _, format := range []string{"pb", "json"} {
			n++
			file := filepath.Join(dir, fmt.Sprintf("cfg%d.%s", n, format))
			patchFile := filepath.Join(dir, fmt.Sprintf("patch%d.json", n))
			for _, e := range []string{"MIERU_CONFIG_FILE", "MIERU_CONFIG_JSON_FILE", "MITA_CONFIG_FILE", "MITA_CONFIG_JSON_FILE"} {
				os.Unsetenv(e)
			}
			rec := map[string]any{"ev": "apply", "side": c.Side, "format": format, "base": c.Base, "patch": c.Patch, "want": c.Want,
				"err": "", "panic": "", "plaintext": false, "raw_plaintext": false}
			var got abstract
			if c.Side == "client" {
				os.Setenv(map[string]string{"pb": "MIERU_CONFIG_FILE", "json": "MIERU_CONFIG_JSON_FILE"}[format], file)
				if err := appctl.StoreClientConfig(buildClient(c.Base)); err != nil {
					t.Fatalf("store base: %v", err)
				}
				b, _ := common.MarshalJSON(buildClient(c.Patch))
				os.WriteFile(patchFile, b, 0600)
				err, p := guard(func() error { return appctl.ApplyJSONClientConfig(patchFile) })
				if err != nil {
					rec["err"] = err.Error()
				}
				rec["panic"] = p
				loaded, lerr := appctl.LoadClientConfig()
				if lerr != nil {
					rec["err"] = "load: " + lerr.Error()
				} else {
					got = projectClient(loaded)
				}
			} else {
				os.Setenv(map[string]string{"pb": "MITA_CONFIG_FILE", "json": "MITA_CONFIG_JSON_FILE"}[format], file)
				if err := appctl.StoreServerConfig(buildServer(c.Base)); err != nil {
					t.Fatalf("store base: %v", err)
				}
				b, _ := common.MarshalJSON(buildServer(c.Patch))
				os.WriteFile(patchFile, b, 0600)
				err, p := guard(func() error { return appctl.ApplyJSONServerConfig(patchFile) })
				if err != nil {
					rec["err"] = err.Error()
				}
				rec["panic"] = p
				loaded, lerr := appctl.LoadServerConfig()
				if lerr != nil {
					rec["err"] = "load: " + lerr.Error()
				} else {
					var pt bool
					got, pt = projectServer(loaded)
					rec["plaintext"] = pt
				}
				// the bytes on disk must not contain any configured plaintext password
				raw, _ := os.ReadFile(file)
				for _, k := range []string{"k1", "k2"} {
					for _, it := range []string{"A", "B"} {
						pw := user(k, it).GetPassword()
						if strings.Contains(string(raw), pw) || strings.Contains(string(raw), base64.StdEncoding.EncodeToString([]byte(pw))) {
							if c.Want.Coll[k] == it || c.Base.Coll[k] == it {
								rec["raw_plaintext"] = true
							}
						}
					}
				}
			}
			rec["got"] = got
			out.Emit(rec)
		}
	})
}

// TestLinks: export/import of share links for every profile body and adversarial names; malformed classes.
func TestLinks(t *testing.T) {
	out := vt.MustCreate(t, "VERIF_OUT")
	defer out.Close()
	dir := t.TempDir()
	// round trips
	for _, k := range []string{"k1", "k2"} {
		for _, it := range []string{"A", "B"} {
			p := profile(k, it)
			rec := map[string]any{"ev": "link", "kind": "simple", "key": k, "item": it, "ok": false, "err": "", "panic": ""}
			err, pn := guard(func() error {
				urls, err := appctl.ClientProfileToMultiURLs(p)
				if err != nil {
					return err
				}
				if len(urls) != len(p.GetServers()) {
					return fmt.Errorf("%d urls for %d servers", len(urls), len(p.GetServers()))
				}
				for i, u := range urls {
					q, err := appctl.URLToClientProfile(u)
					if err != nil {
						return fmt.Errorf("import %q: %w", u, err)
					}
					want := proto.Clone(p).(*pb.ClientProfile)
					want.Servers = []*pb.ServerEndpoint{p.GetServers()[i]}
					if !proto.Equal(q, want) {
						return fmt.Errorf("profile changed by export/import: %v != %v", q, want)
					}
					cfg, err := appctl.ParseURLClientConfig(u)
					if err != nil || len(cfg.GetProfiles()) != 1 || !proto.Equal(cfg.GetProfiles()[0], want) {
						return fmt.Errorf("ParseURLClientConfig differs: %v", err)
					}
				}
				return nil
			})
			if err != nil {
				rec["err"] = err.Error()
			}
			rec["panic"], rec["ok"] = pn, err == nil && pn == ""
			out.Emit(rec)
		}
	}
	for _, full := range []abstract{{S: map[string]string{"activeProfile": "v2", "socks5Port": "v1", "rpcPort": "v2", "socks5Authentication": "v2", "advancedSettings": "v2", "httpProxyListenLAN": "v2"},
		Coll: map[string]string{"k1": "A", "k2": "B"}}, {S: map[string]string{}, Coll: map[string]string{"k1": "B", "k2": "absent"}}} {
		c := buildClient(full)
		rec := map[string]any{"ev": "link", "kind": "full", "key": "", "item": "", "ok": false, "err": "", "panic": ""}
		err, pn := guard(func() error {
			u, err := appctl.ClientConfigToURL(c)
			if err != nil {
				return err
			}
			back, err := appctl.URLToClientConfig(u)
			if err != nil {
				return err
			}
			if !proto.Equal(back, c) {
				return fmt.Errorf("config changed by export/import")
			}
			return nil
		})
		if err != nil {
			rec["err"] = err.Error()
		}
		rec["panic"], rec["ok"] = pn, err == nil && pn == ""
		out.Emit(rec)
	}
	// malformed classes: an error, never a panic, and the stored configuration stays as it was
	good, _ := appctl.ClientProfileToMultiURLs(profile("k1", "A"))
	base := good[0]
	q := func(s string) string { return strings.Replace(base, "port=443", s, 1) }
	rawpb, _ := proto.Marshal(buildClient(abstract{S: map[string]string{}, Coll: map[string]string{"k1": "A", "k2": "absent"}}))
	classes := map[string][]string{
		"schemeOnly":           {"mieru:", "mierus:"},
		"schemeSlash":          {"mieru:/", "mieru:/x", "mierus:/", "mierus://"},
		"wrongScheme":          {"http://example.com", "mieru2://abc", "MIERU://" + base64.StdEncoding.EncodeToString(rawpb)[:8]},
		"opaque":               {"mieru:abcdefgh", "mierus:user:pw@host"},
		"badBase64":            {"mieru://!!!!notbase64!!!!", "mieru://" + base64.StdEncoding.EncodeToString(rawpb) + "=", "mieru://%zz"},
		"badProtobuf":          {"mieru://" + base64.StdEncoding.EncodeToString([]byte{0xff, 0xff, 0xff, 0xff, 0x01}), "mieru://" + base64.StdEncoding.EncodeToString(rawpb[:len(rawpb)-3])},
		"empty":                {"", " ", "\x00"},
		"noUser":               {strings.Replace(base, "user%40a:", ":", 1), "mierus://1.2.3.4?profile=p&port=1&protocol=TCP"},
		"noPassword":           {"mierus://user@1.2.3.4?profile=p&port=1&protocol=TCP", "mierus://user:@1.2.3.4?profile=p&port=1&protocol=TCP"},
		"noHost":               {"mierus://user:pw@?profile=p&port=1&protocol=TCP", "mierus://user:pw@:443?profile=p&port=1&protocol=TCP"},
		"noProfile":            {"mierus://user:pw@1.2.3.4?port=1&protocol=TCP", "mierus://user:pw@1.2.3.4?profile=&port=1&protocol=TCP"},
		"portZero":             {q("port=0"), q("port=-1")},
		"port65536":            {q("port=65536"), q("port=99999999999999999999")},
		"portRangeReversed":    {q("port=20-10"), q("port=0-10"), q("port=10-65536")},
		"portRangeThree":       {q("port=1-2-3"), q("port=-"), q("port=1-"), q("port=-2")},
		"portNotNumber":        {q("port=abc"), q("port=1a"), q("port=%20")},
		"portProtocolMismatch": {base + "&port=1", strings.Replace(base, "&protocol=TCP", "", 1)},
		"badMtu":               {strings.Replace(base, "mtu=1400", "mtu=abc", 1), strings.Replace(base, "mtu=1400", "mtu=1e3", 1), strings.Replace(base, "mtu=1400", "mtu=99999999999999999999", 1)},
		"badTrafficPattern":    {base + "&traffic-pattern=!!!", base + "&traffic-pattern=" + base64.StdEncoding.EncodeToString([]byte{0xff, 0xff, 0xff})},
	}
	jsonClasses := map[string][]string{
		"badJson":         {"{", "[1,2", "{\"profiles\": [}", "\xff\xfe"},
		"jsonWrongType":   {"{\"socks5Port\": \"abc\"}", "{\"profiles\": {}}", "{\"rpcPort\": 1.5}", "[]", "null", "42"},
		"jsonUnknownEnum": {"{\"loggingLevel\": \"LOUD\"}", "{\"profiles\":[{\"profileName\":\"x\",\"multiplexing\":{\"level\":\"MAX\"}}]}"},
	}
	os.Unsetenv("MIERU_CONFIG_JSON_FILE")
	store := filepath.Join(dir, "client.pb")
	os.Setenv("MIERU_CONFIG_FILE", store)
	stored := buildClient(abstract{S: map[string]string{"activeProfile": "v1", "socks5Port": "v1", "rpcPort": "v1"}, Coll: map[string]string{"k1": "A", "k2": "absent"}})
	if err := appctl.StoreClientConfig(stored); err != nil {
		t.Fatal(err)
	}
	before, _ := os.ReadFile(store)
	check := func(class, input string, f func() error) {
		err, pn := guard(f)
		after, _ := os.ReadFile(store)
		out.Emit(map[string]any{"ev": "malformed", "class": class, "input": fmt.Sprintf("%.80q", input), "rejected": err != nil, "panic": pn,
			"unchanged": string(before) == string(after), "err": ""})
		before = after
	}
	for class, inputs := range classes {
		for _, in := range inputs {
			in := in
			check(class, in, func() error { return appctl.ApplyURLClientConfig(in) })
			if strings.HasPrefix(in, "mieru:") {
				check(class, in, func() error { _, err := appctl.URLToClientConfig(in); return err })
			} else {
				check(class, in, func() error { _, err := appctl.URLToClientProfile(in); return err })
			}
		}
	}
	for class, inputs := range jsonClasses {
		for i, in := range inputs {
			pf := filepath.Join(dir, fmt.Sprintf("bad%s%d.json", class, i))
			os.WriteFile(pf, []byte(in), 0600)
			check(class, in, func() error { return appctl.ApplyJSONClientConfig(pf) })
			srvStore := filepath.Join(dir, "server.pb")
			os.Setenv("MITA_CONFIG_FILE", srvStore)
			if _, err := os.Stat(srvStore); err != nil {
				appctl.StoreServerConfig(buildServer(abstract{S: allv("v1"), Coll: map[string]string{"k1": "A", "k2": "absent"}}))
			}
			sb, _ := os.ReadFile(srvStore)
			err, pn := guard(func() error { return appctl.ApplyJSONServerConfig(pf) })
			sa, _ := os.ReadFile(srvStore)
			out.Emit(map[string]any{"ev": "malformed", "class": class, "input": fmt.Sprintf("server %.60q", in), "rejected": err != nil, "panic": pn,
				"unchanged": string(sb) == string(sa), "err": ""})
		}
	}
}

// TestStart: a profile that passes validation can be started: the first encrypted segment of a connection is produced without a
// crash.  User names are given in several encodings around the 64-byte limit (the limit of the wire format is in bytes).
func TestStart(t *testing.T) {
	out := vt.MustCreate(t, "VERIF_OUT")
	defer out.Close()
	names := []string{
		strings.Repeat("a", 64), strings.Repeat("a", 65),
		strings.Repeat("\u00fc", 32), strings.Repeat("\u00fc", 33), // two-byte letters: 64 and 66 bytes
		strings.Repeat("\u4e2d", 21), strings.Repeat("\u4e2d", 22), // three-byte letters: 63 and 66 bytes
		strings.Repeat("\U0001F600", 16), strings.Repeat("\U0001F600", 17), // four-byte: 64 and 68 bytes
		"a", "user@host:/?#%&+= x",
	}
	for _, n := range names {
		p := profile("k1", "A")
		p.User.Name = proto.String(n)
		rec := map[string]any{"ev": "start", "name_bytes": len(n), "name_runes": len([]rune(n)), "valid": false, "ok": false, "err": "", "panic": ""}
		if err := appctlcommon.ValidateClientConfigSingleProfile(p); err != nil {
			rec["err"] = err.Error()
			rec["ok"] = true // refused by validation: nothing to start
			out.Emit(rec)
			continue
		}
		rec["valid"] = true
		err, pn := guard(func() error {
			// what the client does for the first segment of a connection (mux.newUnderlay + the first encryption)
			hashed := cipher.HashPassword([]byte(p.GetUser().GetPassword()), []byte(n))
			for _, stateless := range []bool{true, false} {
				block, err := cipher.BlockCipherFromPassword(hashed, stateless)
				if err != nil {
					return err
				}
				block.SetBlockContext(cipher.BlockContext{UserName: n})
				if err := block.Encrypt(make([]byte, 0, 256), make([]byte, 32)); err != nil {
					return err
				}
			}
			return nil
		})
		if err != nil {
			rec["err"] = err.Error()
		}
		rec["panic"], rec["ok"] = pn, err == nil && pn == ""
		out.Emit(rec)
	}
}
