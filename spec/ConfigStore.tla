----------------------------- MODULE ConfigStore -----------------------------
(***************************************************************************)
(* Configuration handling of pkg/appctl (client and server): a             *)
(* configuration is a record of optional scalar fields plus one keyed      *)
(* collection (profiles by name on the client, users by name on the        *)
(* server).  ApplyPatch = validate patch, merge, validate, store; then     *)
(* Load.  Share links: Export / Import.  Malformed inputs are classes.     *)
(***************************************************************************)
EXTENDS Integers, FiniteSets, Sequences, TLC, Json

U == "unset"
Vals == {"v1", "v2"}
Opt == Vals \cup {U}

ClientScalars == {"activeProfile", "socks5Port", "loggingLevel", "rpcPort", "httpProxyPort", "socks5ListenLAN",
                  "httpProxyListenLAN", "socks5Authentication", "advancedSettings"}
ServerScalars == {"portBindings", "loggingLevel", "mtu", "egress", "dns", "trafficPattern", "advancedSettings"}
Keys == {"k1", "k2"}                       \* profile / user names
Items == {"A", "B"}                        \* two distinguishable profile / user bodies
Absent == "absent"

Scalars(side) == IF side = "client" THEN ClientScalars ELSE ServerScalars
Config(side) == [s : [Scalars(side) -> Opt], coll : [Keys -> Items \cup {Absent}]]

\* merge: a scalar the patch sets replaces the stored one, everything else is kept; collection entries are merged by key
Merge(dst, patch) == [s |-> [f \in DOMAIN dst.s |-> IF patch.s[f] # U THEN patch.s[f] ELSE dst.s[f]],
                      coll |-> [k \in Keys |-> IF patch.coll[k] # Absent THEN patch.coll[k] ELSE dst.coll[k]]]

\* C20: applying a patch changes only what the patch sets
PatchLocal(side) == \A d \in Config(side), p \in Config(side) :
   LET m == Merge(d, p) IN
   /\ \A f \in Scalars(side) : p.s[f] = U => m.s[f] = d.s[f]
   /\ \A f \in Scalars(side) : p.s[f] # U => m.s[f] = p.s[f]
   /\ \A k \in Keys : (p.coll[k] = Absent => m.coll[k] = d.coll[k]) /\ (p.coll[k] # Absent => m.coll[k] = p.coll[k])
Idempotent(side) == \A d \in Config(side), p \in Config(side) : Merge(Merge(d, p), p) = Merge(d, p)

\* bases and patches used by the binding
Empty(side) == [s |-> [f \in Scalars(side) |-> U], coll |-> [k \in Keys |-> Absent]]
Full(side) == [s |-> [f \in Scalars(side) |-> "v1"], coll |-> [k \in Keys |-> "A"]]
Bases(side) == {Full(side), [Full(side) EXCEPT !.coll = [k \in Keys |-> IF k = "k1" THEN "A" ELSE Absent]]}
OneField(side) == {[Empty(side) EXCEPT !.s[f] = v] : f \in Scalars(side), v \in Vals}
                  \cup {[Empty(side) EXCEPT !.coll[k] = i] : k \in Keys, i \in Items}
TwoFields(side) == {Merge(a, b) : a \in OneField(side), b \in OneField(side)}
Cases(side) == {[side |-> side, base |-> b, patch |-> p, want |-> Merge(b, p)] : b \in Bases(side), p \in OneField(side) \cup TwoFields(side) \cup {Empty(side)}}

\* malformed share links and configuration text: every class must yield an error, leave the store unchanged, and not crash
Malformed == {"schemeOnly", "schemeSlash", "wrongScheme", "opaque", "badBase64", "badProtobuf", "empty",
              "noUser", "noPassword", "noHost", "noProfile", "portZero", "port65536", "portRangeReversed", "portRangeThree",
              "portNotNumber", "portProtocolMismatch", "badMtu", "badTrafficPattern", "badJson", "jsonWrongType", "jsonUnknownEnum"}

VARIABLE x
Init == x = 0
Next == x' = x /\ FALSE
=============================================================================
