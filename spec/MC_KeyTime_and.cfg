CONSTANTS
  CacheChecksEpoch = FALSE
INIT Init
NEXT Next
INVARIANTS CacheSlot
CHECK_DEADLOCK FALSE
