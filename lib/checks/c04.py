"""C04 - tampering with bytes on the wire never changes what the application reads.

design spec   SessionStream.tla with TamperAlter / TamperSwap (any altered, shifted or swapped piece fails the
              next authenticated open -> the underlay ends, PrefixOK still holds); SessionPacket.tla treats a
              modified datagram as a drop, so C02's invariants and progress carry over.
binding       the simulated networks apply the mutation at a CONCRETE byte offset of real traffic:
              TCP  every offset class of the client->server and server->client streams (nonce, metadata
                   ciphertext, metadata tag, payload ciphertext incl. low-entropy bodies, payload tag, padding,
                   segment boundaries) x {flip, sub, ins, del, trunc}, plus swap / drop / duplicate of whole segments
              UDP  every offset of chosen datagrams x {flip, sub, ins, del, trunc}, splices inside a datagram and
                   from the previous datagram of the same direction
              oracle = TLC on the recorded trace: ReadExact (position-keyed keystream: no byte differs, nothing
              beyond what was written), on UDP additionally Completes (modified datagram = loss).
"""
import json
import random
import shutil

import sessions
import vlib
from vlib import Inconclusive

INVS_TCP = ["ReadExact"]
INVS_UDP = ["ReadExact", "Completes", "AckSound"]

KINDS = ["flip", "sub", "ins", "del", "trunc"]


def tcp_layout():
    """Stream offsets of a client->server stream with padding maxima 0 and the programme below:
    open request with 600 piggybacked bytes, then one data segment of 2000 bytes, then a 32-byte one."""
    segs = [("open", 24, 600), ("data", 0, 2000), ("data", 0, 32)]
    off, regions = 0, []
    for kind, nonce, pay in segs:
        start = off
        if nonce:
            regions.append(("nonce", off, off + nonce))
            off += nonce
        regions.append(("metaCT", off, off + 32))
        off += 32
        regions.append(("metaTag", off, off + 16))
        off += 16
        regions.append(("body", off, off + pay))
        off += pay
        regions.append(("bodyTag", off, off + 16))
        off += 16
    return regions, off


def tcp_scenarios(seed, thorough):
    rnd = random.Random(seed)
    regions, total = tcp_layout()
    nopad = sessions.pattern(pad_mid=0, pad_end=0)
    prog = [{"c": [["w", 600], ["w", 2000], ["w", 32], ["rn", 1500]], "s": [["rn", 2632], ["w", 1500], ["rall"]]}]
    offs = set()
    for name, a, b in regions:
        pts = {a, a + 1, b - 1, (a + b) // 2}
        if thorough:
            pts |= set(range(a, b))
        else:
            pts |= {rnd.randrange(a, b) for _ in range(3)}
        offs |= {x for x in pts if a <= x < b}
    out = []
    k = 0
    for d in ("C2S", "S2C"):
        for off in sorted(offs):
            if d == "S2C" and off >= 24 + 48 + 100 and not thorough and off % 3:
                continue
            for kind in (KINDS if (thorough or off % 2 == 0) else ["flip", "del"]):
                out.append({"id": "tcp/%s-%s-%d" % (d, kind, off), "transport": "tcp", "mtu": 1400, "cpat": nopad, "spat": nopad,
                            "tampers": [{"dir": d, "off": off, "kind": kind, "bit": off % 8}], "sessions": prog,
                            "seed": seed + k, "limit": 300, "notx": 2})
                k += 1
    # whole segments swapped / dropped / duplicated; two sessions on one connection (splice from another session)
    two = [{"c": [["w", 600], ["w", 2000], ["rn", 10]], "s": [["rn", 2600], ["w", 10], ["rall"]]},
           {"c": [["w", 700], ["w", 2100], ["rn", 10]], "s": [["rn", 2800], ["w", 10], ["rall"]]}]
    for d in ("C2S", "S2C"):
        for nth in (1, 2, 3, 4):
            for kind in ("swapwrites", "dropwrite", "dupwrite"):
                out.append({"id": "tcp/%s-%s-%d" % (d, kind, nth), "transport": "tcp", "mtu": 1400, "cpat": nopad, "spat": nopad,
                            "multiplex": 3, "tampers": [{"dir": d, "nth": nth, "kind": kind}], "sessions": two,
                            "seed": seed + k, "limit": 300, "notx": 2})
                k += 1
    # low entropy bodies and default (random) padding: offsets sampled
    for m in sessions.LE_MODES[1:]:
        p = sessions.pattern(le_mode=m, le_rot=sessions.rotation_name(rnd.randrange(31)))
        for _ in range(12 if not thorough else 120):
            off = rnd.randrange(0, 5000)
            out.append({"id": "tcp/le-%s-%d" % (m[-2:], off), "transport": "tcp", "mtu": 1400, "cpat": p, "spat": p,
                        "tampers": [{"dir": rnd.choice(["C2S", "S2C"]), "off": off, "kind": rnd.choice(KINDS), "bit": off % 8}],
                        "sessions": prog, "seed": seed + k, "limit": 300, "notx": 2})
            k += 1
    return out


def udp_scenarios(seed, thorough):
    rnd = random.Random(seed + 4)
    out = []
    k = 0
    nopad = sessions.pattern(pad_mid=0, pad_end=0)
    pad = sessions.pattern(pad_mid=40, pad_end=40)
    sess = sessions.keep_open([{"c": [["w", 600], ["w", 1200], ["w", 32], ["rn", 1500]], "s": [["rn", 1832], ["w", 1500]]}])
    # datagram numbers: C2S 1=open(600 piggy) 2=data(1200) 3=data(32) ...; S2C 1=openresp 2=ack ...
    for d, seg, seq, length in (("C2S", "open", 0, 24 + 48 + 616), ("C2S", "data", 1, 24 + 48 + 1216), ("C2S", "data", 2, 24 + 48 + 48),
                                ("S2C", "openresp", 0, 72), ("S2C", "data", 2, 72 + 188 + 16)):
        pts = set(range(0, min(length, 130))) | {length - 1, length - 2, length - 17, length // 2}
        if thorough:
            pts |= set(range(0, length))
        for off in sorted(x for x in pts if 0 <= x < length):
            for kind in (KINDS if (thorough or off % 4 == 0) else ["flip"]):
                out.append({"id": "udp/%s-%s%d-%s-%d" % (d, seg, seq, kind, off), "transport": "udp", "mtu": 1400,
                            "cpat": nopad, "spat": nopad, "tampers": [{"dir": d, "seg": seg, "seq": seq, "off": off, "kind": kind, "bit": off % 8}],
                            "sessions": sess, "seed": seed + k, "limit": 600, "expect": "complete", "notx": 0})
                k += 1
    # padded traffic: flips inside padding are accepted unchanged, everything else is a loss
    for _ in range(40 if not thorough else 600):
        d = rnd.choice(["C2S", "S2C"])
        out.append({"id": "udp/pad-%d" % k, "transport": "udp", "mtu": 1400, "cpat": pad, "spat": pad,
                    "tampers": [{"dir": d, "seg": rnd.choice(["open", "data", "data", "openresp", "ack"]) if d == "C2S" else rnd.choice(["openresp", "data", "ack"]),
                                 "seq": rnd.randint(0, 2), "off": rnd.randrange(0, 400), "kind": rnd.choice(KINDS), "bit": rnd.randrange(8)}],
                    "sessions": sess, "seed": seed + k, "limit": 600, "expect": "complete", "notx": 0})
        k += 1
    # answer-then-close: the writer closes right after its last write, so the close request reaches the reader before any
    # retransmission of the datagram that was tampered with (and dropped); whatever the reader gets must still be a prefix
    close_sess = [{"c": [["w", 1], ["rall", 65536]], "s": [["rn", 1], ["w", 6000], ["close"]]}]
    for seq in (1, 2, 3, 4, 5):
        for kind in ("flip", "trunc"):
            out.append({"id": "udp/answer-then-close-S2C-data%d-%s" % (seq, kind), "transport": "udp", "mtu": 1400, "cpat": nopad, "spat": nopad,
                        "tampers": [{"dir": "S2C", "seg": "data", "seq": seq, "off": 100, "kind": kind, "bit": 3}],
                        "sessions": close_sess, "seed": seed + k, "limit": 600, "notx": 0})
            k += 1
    # splices: inside one datagram (metadata ciphertext over the payload, payload over metadata, tags exchanged)
    # and from the previous datagram of the same direction (another segment)
    for (seg, seq), pay in ((("data", 1), 1200), (("data", 2), 32), (("open", 0), 600)):
        body = 72
        for src, dst, ln in ((24, body, 48), (24, body, 32), (body, 24, 32), (body, 24, 48), (56, body + pay, 16), (body + pay, 56, 16), (0, body, 24)):
            out.append({"id": "udp/splice-%s%d-%d-%d-%d" % (seg, seq, src, dst, ln), "transport": "udp", "mtu": 1400, "cpat": nopad, "spat": nopad,
                        "tampers": [{"dir": "C2S", "seg": seg, "seq": seq, "off": dst, "src": src, "len": ln, "kind": "splice"}],
                        "sessions": sess, "seed": seed + k, "limit": 600, "expect": "complete", "notx": 0})
            k += 1
        for src, dst, ln in ((72, 72, 48), (24, 24, 48), (0, 0, 72), (72, 72, 16)):
            out.append({"id": "udp/xsplice-%s%d-%d-%d-%d" % (seg, seq, src, dst, ln), "transport": "udp", "mtu": 1400, "cpat": nopad, "spat": nopad,
                        "tampers": [{"dir": "C2S", "seg": seg, "seq": seq, "off": dst, "src": src, "len": ln, "kind": "xsplice"}],
                        "sessions": sess, "seed": seed + k, "limit": 600, "expect": "complete", "notx": 0})
            k += 1
    # reflection: a genuine datagram copied back toward its own sender (both directions share the key on UDP).
    # The victim must never read its own bytes as if the peer had written them.
    bidir = [{"c": [["w", 600], ["w", 1200], ["w", 1200], ["rn", 3000]], "s": [["sleep", 300], ["w", 1000], ["w", 1000], ["w", 1000], ["rn", 3000]]}]
    for d, seg, seq in (("C2S", "data", 1), ("C2S", "data", 2), ("C2S", "open", 0), ("S2C", "data", 1), ("S2C", "data", 2), ("S2C", "openresp", 0)):
        for lag in (0, 5, 250):
            out.append({"id": "udp/reflect-%s-%s%d-lag%d" % (d, seg, seq, lag), "transport": "udp", "mtu": 1400, "cpat": nopad, "spat": nopad,
                        "tampers": [{"dir": d, "seg": seg, "seq": seq, "kind": "reflect", "len": lag}],
                        "sessions": bidir, "seed": seed + k, "limit": 600, "expect": "", "notx": 0})
            k += 1
    return out


def signature(inv, sc, bad):
    tm = (sc.get("tampers") or [{}])[0]
    if sc.get("transport") == "udp" and tm.get("kind") == "splice" and tm.get("src") == 24 and tm.get("len") == 48:
        return "C04:udp:metadata-ciphertext-spliced-over-32-byte-payload"
    return "C04:%s:%s" % (sc.get("transport"), inv)


def run(ctx):
    ctx.level = "fault_enumeration"
    ctx.coverage["rule"] = ("one mutation per run at a concrete byte offset of real traffic (regions x kinds enumerated, offsets "
                            "inside a region at its edges, middle and seeded positions; every offset in the thorough tier); "
                            "distinct_nontrivial = distinct (transport, direction, offset/segment, kind) mutations applied")
    ctx.assumptions += ["cryptographic strength of XChaCha20-Poly1305 is assumed", "virtual time (testing/synctest)"]
    wd = vlib.scratch_dir("verif-c04-")
    try:
        for cfg in (["MC_SS_tamper"] + (["MC_SS_tamper_big"] if ctx.thorough() else [])):
            res = vlib.tlc("SessionStream", cfg, timeout=1500, heap="20g")
            if res.violated:
                raise Inconclusive("design model %s violates %s (model-only; fix the spec)" % (cfg, res.violated))
            ctx.add_tlc(res, "SessionStream with TamperAlter/TamperSwap " + cfg)
        t = tcp_scenarios(ctx.seed, ctx.thorough())
        u = udp_scenarios(ctx.seed, ctx.thorough())
        ctx.coverage["distinct_nontrivial"] += len(t) + len(u)
        ctx.coverage["mutations"] = {"tcp": len(t), "udp": len(u)}
        ctx.sample({"kind": "mutation", "scenario": {k: v for k, v in t[len(t) // 3].items() if k != "sessions"}})
        ctx.sample({"kind": "mutation", "scenario": {k: v for k, v in u[len(u) // 2].items() if k != "sessions"}})
        sessions.check_traces(ctx, t, wd, "c04tcp", INVS_TCP, timeout=3000, signature_of=signature)
        refl = [x for x in u if "/reflect-" in x["id"]]
        u = [x for x in u if "/reflect-" not in x["id"]]
        sessions.check_traces(ctx, refl, wd, "c04refl", ["ReadExact"], timeout=3000, signature_of=signature)
        trace = sessions.check_traces(ctx, u, wd, "c04udp", INVS_UDP, timeout=3000, signature_of=signature)
        sessions.sample_trace(ctx, trace, None, n=12)
    finally:
        shutil.rmtree(wd, ignore_errors=True)


def replay(ctx, path):
    rp = json.load(open(path))
    wd = vlib.scratch_dir("verif-c04r-")
    try:
        sc = rp["scenario"]
        sessions.check_traces(ctx, [sc], wd, "replay", INVS_UDP if sc["transport"] == "udp" else INVS_TCP, signature_of=signature)
    finally:
        shutil.rmtree(wd, ignore_errors=True)
