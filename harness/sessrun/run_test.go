package sessrun

import (
	"encoding/json"
	"fmt"
	"os"
	"sync/atomic"
	"testing"
	"testing/synctest"
	"time"

	"verifharness/vt"
)

// TestScenarios runs every scenario of VERIF_IN in its own bubble and writes
// the recorded events to VERIF_OUT (one "Begin" line per scenario first).
func TestScenarios(t *testing.T) {
	out := vt.MustCreate(t, "VERIF_OUT")
	defer out.Close()
	n := 0
	// Watchdog on the wall clock (outside any bubble): a goroutine waiting for a sync.Mutex is not
	// "durably blocked", so a virtual-time run in which such a goroutine sits behind back-pressure
	// can never advance its clock. Such a scenario is reported and abandoned, never judged.
	var cur atomic.Value
	var started atomic.Int64
	cur.Store("")
	go func() {
		for {
			time.Sleep(2 * time.Second)
			if st := started.Load(); st != 0 && time.Now().Unix()-st > int64(vt.EnvInt("VERIF_HANG_SEC", 40)) {
				out.Emit(Event{Ev: "Hung", Err: cur.Load().(string), Off: -1})
				out.Flush()
				fmt.Println("HUNG", cur.Load().(string))
				os.Exit(3)
			}
		}
	}()
	vt.ReadLines(t, "VERIF_IN", func(line []byte) {
		sc := &Scenario{}
		if err := json.Unmarshal(line, sc); err != nil {
			t.Fatalf("bad scenario: %v", err)
		}
		n++
		cur.Store(sc.ID)
		started.Store(time.Now().Unix())
		if sc.Realtime {
			// sleeping while holding a mutex another goroutine wants (TCP fragmentation with maxSleepMs > 0)
			// cannot run on a virtual clock: a mutex wait is not durably blocking
			res := Run(sc)
			out.Emit(Event{Ev: "Begin", Err: sc.ID, Ep: sc.Transport, N: n, Off: -1, Ok: !res.Stalled, Fate: res.Note})
			for _, e := range res.Events {
				out.Emit(e)
			}
			out.Flush()
			return
		}
		synctest.Test(t, func(t *testing.T) {
			// written from inside the bubble so that a leak panic still leaves the trace on disk
			res := Run(sc)
			out.Emit(Event{Ev: "Begin", Err: sc.ID, Ep: sc.Transport, N: n, Off: -1, Ok: !res.Stalled, Fate: res.Note})
			for _, e := range res.Events {
				out.Emit(e)
			}
			out.Flush()
		})
	})
}
