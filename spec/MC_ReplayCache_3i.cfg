CONSTANTS
  Items = {"x", "y", "z"}
  Tags = {"A", "B"}
  Cap = 2
  Interval = 2
  Steps = {0, 1, 3}
  CarryTag = TRUE
INIT MCInit
NEXT MCNext
VIEW View
INVARIANTS TypeOK NoMiss NoFalsePositive DumpState
ACTION_CONSTRAINT DumpTrans
CHECK_DEADLOCK FALSE
