-------------------------- MODULE Trace_MuxSchedule --------------------------
(* Validates where a REAL client mux put its sessions and which underlays it kept open (harness/extra/muxsched_test.go, virtual time).  *)
(* Records: dial (landed = creation index of the underlay the new session is on, fresh = it was created for this dial), end (a session  *)
(* of underlay u was closed), advance (n seconds passed); every record lists the underlays whose connection the client still holds.    *)
EXTENDS Integers, Sequences, FiniteSets, TLC, Json, IOUtils
Trace == ndJsonDeserialize(IOEnv.VERIF_TRACE)
VARIABLES l, b, now, created, sess, ending, pend, last, dis, closed, pc, pick, hist
MS == INSTANCE MuxSchedule WITH MaxU <- 16, MaxSteps <- 1000000, Dialers <- {1}
U == 1..16
ToSet(s) == {s[i] : i \in 1..Len(s)}
Fresh0 == /\ now = 1000 /\ created = 0 /\ sess = [u \in U |-> 0] /\ ending = [u \in U |-> 0] /\ pend = [u \in U |-> 0] /\ last = [u \in U |-> -1] /\ dis = [u \in U |-> -1]
          /\ closed = [u \in U |-> FALSE]
Init == l = 1 /\ b = 0 /\ Fresh0 /\ pc = [d \in {1} |-> "idle"] /\ pick = [d \in {1} |-> 0] /\ hist = <<>>

\* the model's state at the start of record r (a new behaviour starts from scratch)
Next ==
  /\ l <= Len(Trace) /\ l' = l + 1
  /\ LET r == Trace[l]
         new == r.b # b
         n0 == IF new THEN 1000 ELSE now
         c0 == IF new THEN 0 ELSE created
         s0 == IF new THEN [u \in U |-> 0] ELSE sess
         e0 == IF new THEN [u \in U |-> 0] ELSE ending
         sc == [u \in U |-> s0[u] - e0[u]]
         big == r.ev = "advance" /\ r.n >= 200
         sl == IF big THEN sc ELSE s0                      \* the latest the underlay can have forgotten them
         l0 == IF new THEN [u \in U |-> -1] ELSE last
         d0 == IF new THEN [u \in U |-> -1] ELSE dis
         k0 == IF new THEN [u \in U |-> FALSE] ELSE closed
         idle(u, t) == d0[u] # -1 /\ t - l0[u] > MS!IdleHi /\ t - d0[u] > MS!IdleHi
         clean(t) == [u \in U |-> k0[u] \/ (u <= c0 /\ ~k0[u] /\ s0[u] = 0 /\ idle(u, t))]
         candis(u, t) == u <= c0 /\ ~clean(t)[u] /\ s0[u] = 0 /\ d0[u] = -1 /\ (l0[u] = -1 \/ t - l0[u] > MS!IdleHi)
         cdis(t) == [u \in U |-> IF candis(u, t) THEN t ELSE d0[u]]
     IN /\ b' = r.b
        /\ CASE r.ev = "dial" /\ r.ok ->
                  /\ now' = n0 /\ closed' = clean(n0) /\ dis' = cdis(n0)
                  /\ created' = IF r.landed > c0 THEN r.landed ELSE c0
                  /\ sess' = [s0 EXCEPT ![r.landed] = @ + 1] /\ last' = [l0 EXCEPT ![r.landed] = n0] /\ ending' = e0
             [] r.ev = "end" ->
                  /\ now' = n0 /\ closed' = k0 /\ dis' = d0 /\ created' = c0 /\ last' = l0
                  /\ sess' = s0 /\ ending' = [e0 EXCEPT ![r.u] = IF s0[r.u] - @ > 0 THEN @ + 1 ELSE @]
             [] r.ev = "advance" ->
                  /\ now' = n0 + r.n /\ created' = c0 /\ sess' = sl /\ ending' = (IF big THEN [u \in U |-> 0] ELSE e0) /\ last' = l0
                  /\ closed' = [u \in U |-> k0[u] \/ (u <= c0 /\ sl[u] = 0 /\ idle(u, n0 + r.n))]
                  /\ dis' = [u \in U |-> IF u <= c0 /\ ~(k0[u] \/ (sl[u] = 0 /\ idle(u, n0 + r.n))) /\ sl[u] = 0 /\ d0[u] = -1 /\ (l0[u] = -1 \/ (n0 + r.n) - l0[u] > MS!IdleHi)
                                          THEN n0 + r.n ELSE d0[u]]
             [] OTHER -> /\ now' = n0 /\ closed' = k0 /\ dis' = d0 /\ created' = c0 /\ sess' = s0 /\ ending' = e0 /\ last' = l0
  /\ UNCHANGED <<pend, pc, pick, hist>>
Spec == Init /\ [][Next]_<<l, b, now, created, sess, ending, pend, last, dis, closed, pc, pick, hist>>
R == Trace[l - 1]
Seen == l > 1
\* on the logged values: a dial succeeds and lands on an underlay the client holds open; an underlay with a live session stays open
DialSucceeds == (Seen /\ R.ev = "dial") => R.ok
LandsOnOpen == (Seen /\ R.ev = "dial" /\ R.ok) => R.landed \in ToSet(R.open)
SessionsKeepTheirUnderlay == Seen => \A u \in U : (sess[u] - ending[u] > 0 => u \in ToSet(R.open))
\* conformance with MuxSchedule.tla fed the same history.  The monitor lets an underlay forget its closed sessions as late as the
\* model allows (at the next 200 s step), so its "disabled" and "closed" are the latest possible: what it calls disabled must not
\* receive a session, what it calls closed must be closed, and nothing it never saw created may be open
ModelAgreesOnOpen == (Seen /\ R.ev = "advance") => /\ \A u \in U : (u <= created /\ closed[u]) => u \notin ToSet(R.open)
                                                    /\ ToSet(R.open) \subseteq 1..created
ModelAllowsLanding == (Seen /\ R.ev = "dial" /\ R.ok /\ ~R.fresh) => ~(dis[R.landed] # -1 /\ now - dis[R.landed] > 0)
TraceAccepted == TLCGet("stats").diameter - 1 = Len(Trace)
=============================================================================
