--------------------------- MODULE Trace_ConfigStore ---------------------------
(* Validates what the REAL pkg/appctl functions did with each (base, patch) case on both file formats, with share links    *)
(* and with malformed inputs.                                                                                              *)
EXTENDS Integers, Sequences, TLC, Json, IOUtils
VARIABLES l, x
CS == INSTANCE ConfigStore
Trace == ndJsonDeserialize(IOEnv.VERIF_TRACE)
Init == l = 1 /\ x = 0
Next == l <= Len(Trace) /\ l' = l + 1 /\ UNCHANGED x
Spec == Init /\ [][Next]_<<l, x>>
R == Trace[l - 1]
Seen == l > 1
A == Seen /\ R.ev = "apply"

KeyOf(v) == IF v = "v1" THEN "k1" ELSE "k2"
\* the merged configuration passes full validation: on the client the active profile must exist
Valid(side, m) == side = "server" \/ (m.s["activeProfile"] # CS!U /\ m.coll[KeyOf(m.s["activeProfile"])] # CS!Absent)
Merged == CS!Merge(R.base, R.patch)

\* C20: a patch changes only what it sets (the stored result is exactly the merge); a rejected patch changes nothing
PatchLocal == A => IF Valid(R.side, Merged) THEN (R.err = "" /\ R.got = Merged) ELSE (R.err # "" /\ R.got = R.base)
NoCrash == Seen => R.panic = ""
\* the server's stored configuration never contains a plaintext password
Hashed == (A /\ R.side = "server") => (~R.plaintext /\ ~R.raw_plaintext)
\* export-then-import returns an equivalent configuration
LinksRoundTrip == (Seen /\ R.ev = "link") => R.ok
\* malformed text and links are rejected with an error and leave the store unchanged
Total == (Seen /\ R.ev = "malformed") => (R.rejected /\ R.unchanged /\ R.class \in CS!Malformed)
TraceAccepted == TLCGet("stats").diameter - 1 = Len(Trace)
=============================================================================
