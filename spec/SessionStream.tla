--------------------------- MODULE SessionStream ---------------------------
(***************************************************************************)
(* Design model of mieru sessions multiplexed on ONE TCP underlay          *)
(* (pkg/protocol/underlay_stream.go + session.go).                         *)
(*                                                                         *)
(*  - each direction of the connection is a FIFO of byte-stream pieces;     *)
(*    a segment is written under the underlay's sendMutex in one or more    *)
(*    pieces (TCP fragmentation of session segments sleeps between          *)
(*    pieces while HOLDING the mutex);                                      *)
(*  - one stateful AEAD per direction: every encryption (metadata, then     *)
(*    payload if any) consumes one value of an implicit counter; the        *)
(*    receiver opens pieces with its own counter;                           *)
(*  - the receiving event loop hands whole segments to the session's        *)
(*    recvChan in stream order; the session input loop moves them to        *)
(*    recvQueue; a close request is processed in that order too;            *)
(*  - Session.Read is two steps: ReaderCheck (queue non-empty -> take) and  *)
(*    ReaderWait (select among the READY events), so the window between     *)
(*    them is explored.                                                     *)
(***************************************************************************)
EXTENDS Integers, Sequences, FiniteSets, TLC

CONSTANTS Sess,          \* set of session ids
          NC, NS,        \* units each client / server application writes per session
          Frag,          \* TRUE: session-control segments are written in two pieces
          HoldMutex,     \* TRUE: the mutex is held across the pieces (the code); FALSE: released (defect)
          CloseC,        \* client applications close after their last write
          Recheck,       \* TRUE: Read re-checks the queue when it sees the closed event (the fixed code)
          Tampers        \* how many pieces an on-path attacker may alter / insert / delete / swap (C04)

Ends == {"C", "S"}
Peer(e) == IF e = "C" THEN "S" ELSE "C"
Total(e) == IF e = "C" THEN NC ELSE NS

VARIABLES st,       \* [Ends -> [Sess -> {"none","open","closing","closed"}]]
          appW,     \* units written
          sendQ,    \* [Ends -> [Sess -> Seq(segment)]]
          mutex,    \* [Ends -> holder session or 0]
          inprog,   \* [Ends -> the pieces of the segment being written, still to be put on the wire]
          sendCtr, recvCtr,   \* [Ends -> Nat]   AEAD counters (send side of e, receive side of e)
          wire,     \* [Ends -> Seq(piece)]  pieces travelling TOWARD e
          asm,      \* [Ends -> pieces of the segment the receiver is assembling]
          chan,     \* [Ends -> [Sess -> Seq(segment)]]  recvChan
          rq,       \* [Ends -> [Sess -> Seq(unit)]]     recvQueue contents handed to Read
          got,      \* [Ends -> [Sess -> Seq(unit)]]     what the application has read
          rd,       \* [Ends -> [Sess -> {"idle","waiting"}]] reader program counter
          eof,      \* [Ends -> [Sess -> {"", "clean", "error"}]]
          broken    \* the underlay failed (framing / authentication error)

vars == <<st, appW, sendQ, mutex, inprog, sendCtr, recvCtr, wire, asm, chan, rq, got, rd, eof, broken>>

Seg(s, kind, unit) == [sid |-> s, kind |-> kind, unit |-> unit]
\* a piece: which segment, which part (k of n), and the counter value(s) its ciphertexts were sealed with
Piece(seg, k, n, ctr) == [seg |-> seg, k |-> k, n |-> n, ctr |-> ctr]

Init == /\ st = [e \in Ends |-> [s \in Sess |-> IF e = "C" THEN "open" ELSE "none"]]
        /\ appW = [e \in Ends |-> [s \in Sess |-> 0]]
        /\ sendQ = [e \in Ends |-> [s \in Sess |-> <<>>]]
        /\ mutex = [e \in Ends |-> 0]
        /\ inprog = [e \in Ends |-> <<>>]
        /\ sendCtr = [e \in Ends |-> 0] /\ recvCtr = [e \in Ends |-> 0]
        /\ wire = [e \in Ends |-> <<>>]
        /\ asm = [e \in Ends |-> <<>>]
        /\ chan = [e \in Ends |-> [s \in Sess |-> <<>>]]
        /\ rq = [e \in Ends |-> [s \in Sess |-> <<>>]]
        /\ got = [e \in Ends |-> [s \in Sess |-> <<>>]]
        /\ rd = [e \in Ends |-> [s \in Sess |-> "idle"]]
        /\ eof = [e \in Ends |-> [s \in Sess |-> ""]]
        /\ broken = FALSE

---------------------------------------------------------------------------
AppWrite(e, s) ==
  /\ st[e][s] = "open" /\ appW[e][s] < Total(e) /\ ~broken
  /\ LET u == appW[e][s] + 1
         first == e = "C" /\ appW[e][s] = 0
     IN sendQ' = [sendQ EXCEPT ![e][s] =
                    IF first THEN Append(@, Seg(s, "open", u))     \* first write rides on the open request
                    ELSE Append(@, Seg(s, "data", u))]
  /\ appW' = [appW EXCEPT ![e][s] = @ + 1]
  /\ UNCHANGED <<st, mutex, inprog, sendCtr, recvCtr, wire, asm, chan, rq, got, rd, eof, broken>>

IsCtl(seg) == seg.kind \in {"open", "openresp", "close", "closeresp"}
Encs(seg) == IF seg.unit > 0 THEN 2 ELSE 1      \* encryptions: metadata, then payload if any

(* writeOneSegment: take the mutex, seal (consuming counters), emit the first piece. *)
WriteBegin(e, s) ==
  /\ ~broken /\ st[e][s] \in {"open", "closing"}
  /\ sendQ[e][s] # <<>> /\ mutex[e] = 0
  /\ LET seg == Head(sendQ[e][s])
         n == IF Frag /\ IsCtl(seg) THEN 2 ELSE 1
         ctr == sendCtr[e]
     IN /\ sendQ' = [sendQ EXCEPT ![e][s] = Tail(@)]
        /\ sendCtr' = [sendCtr EXCEPT ![e] = @ + Encs(seg)]
        /\ wire' = [wire EXCEPT ![Peer(e)] = Append(@, Piece(seg, 1, n, ctr))]
        /\ IF n = 1
           THEN /\ UNCHANGED <<mutex, inprog>>
           ELSE /\ inprog' = [inprog EXCEPT ![e] = Append(@, Piece(seg, 2, n, ctr))]
                /\ mutex' = [mutex EXCEPT ![e] = IF HoldMutex THEN s ELSE 0]
  /\ UNCHANGED <<st, appW, recvCtr, asm, chan, rq, got, rd, eof, broken>>

(* the sleep between two pieces is over: emit the next piece, release the mutex after the last *)
WriteNext(e) ==
  /\ inprog[e] # <<>>
  /\ wire' = [wire EXCEPT ![Peer(e)] = Append(@, Head(inprog[e]))]
  /\ inprog' = [inprog EXCEPT ![e] = Tail(@)]
  /\ mutex' = [mutex EXCEPT ![e] = IF Len(inprog[e]) = 1 THEN 0 ELSE @]
  /\ UNCHANGED <<st, appW, sendQ, sendCtr, recvCtr, asm, chan, rq, got, rd, eof, broken>>

---------------------------------------------------------------------------
(* Receiving event loop of e: readOneSegment assembles pieces in stream order. *)
Complete(ps) == ps # <<>> /\ Len(ps) = ps[1].n
WellFormed(ps) == \A k \in 1..Len(ps) : ps[k].seg = ps[1].seg /\ ps[k].k = k /\ ps[k].ctr = ps[1].ctr

Fail == /\ broken' = TRUE
        \* every session of the connection ends; what was read so far stays a prefix
        /\ st' = [e \in Ends |-> [s \in Sess |-> IF st[e][s] = "none" THEN "none" ELSE "closed"]]
        /\ eof' = [e \in Ends |-> [s \in Sess |-> IF eof[e][s] = "" /\ st[e][s] # "none" THEN "error" ELSE eof[e][s]]]

RecvPiece(e) ==
  /\ ~broken /\ wire[e] # <<>>
  /\ LET ps == Append(asm[e], Head(wire[e])) IN
     /\ wire' = [wire EXCEPT ![e] = Tail(@)]
     /\ IF ~WellFormed(ps) \/ ps[1].ctr # recvCtr[e]
        THEN \* bytes of another segment in the middle of this one, or counter out of step
             /\ Fail /\ asm' = [asm EXCEPT ![e] = <<>>]
             /\ UNCHANGED <<recvCtr, chan, sendQ>>
        ELSE IF ~Complete(ps)
             THEN asm' = [asm EXCEPT ![e] = ps] /\ UNCHANGED <<recvCtr, chan, st, eof, broken, sendQ>>
             ELSE LET seg == ps[1].seg IN
                  /\ asm' = [asm EXCEPT ![e] = <<>>]
                  /\ recvCtr' = [recvCtr EXCEPT ![e] = @ + Encs(seg)]
                  /\ IF seg.kind = "open" /\ st[e][seg.sid] = "none"
                     THEN \* onOpenSessionRequest: create the session, queue the response
                          /\ st' = [st EXCEPT ![e][seg.sid] = "open"]
                          /\ chan' = [chan EXCEPT ![e][seg.sid] = Append(@, seg)]
                          /\ sendQ' = [sendQ EXCEPT ![e][seg.sid] = Append(@, Seg(seg.sid, "openresp", 0))]
                          /\ UNCHANGED <<eof, broken>>
                     ELSE IF st[e][seg.sid] \in {"open", "closing"}
                          THEN /\ chan' = [chan EXCEPT ![e][seg.sid] = Append(@, seg)]
                               /\ UNCHANGED <<st, eof, broken, sendQ>>
                          ELSE UNCHANGED <<chan, st, eof, broken, sendQ>>   \* closed session: dropped
  /\ UNCHANGED <<appW, mutex, inprog, sendCtr, rq, got, rd>>

(* Session input loop: one segment from recvChan. *)
Input(e, s) ==
  /\ chan[e][s] # <<>> /\ st[e][s] \in {"open", "closing"}
  /\ LET seg == Head(chan[e][s]) IN
     /\ chan' = [chan EXCEPT ![e][s] = Tail(@)]
     /\ IF seg.kind \in {"open", "openresp", "data"}
        THEN /\ rq' = [rq EXCEPT ![e][s] = IF seg.unit > 0 THEN Append(@, seg.unit) ELSE @]
             /\ UNCHANGED <<st, eof>>
        ELSE \* close request / response: the session closes now; Read may still drain the queue
             /\ st' = [st EXCEPT ![e][s] = "closed"]
             /\ eof' = [eof EXCEPT ![e][s] = IF @ = "" THEN "pending" ELSE @]
             /\ UNCHANGED rq
  /\ UNCHANGED <<appW, sendQ, mutex, inprog, sendCtr, recvCtr, wire, asm, got, rd, broken>>

---------------------------------------------------------------------------
(* Session.Read in two steps. *)
ReaderCheck(e, s) ==
  /\ rd[e][s] = "idle" /\ eof[e][s] \notin {"clean", "error"} /\ st[e][s] # "none"
  /\ IF rq[e][s] # <<>>
     THEN /\ got' = [got EXCEPT ![e][s] = Append(@, Head(rq[e][s]))]
          /\ rq' = [rq EXCEPT ![e][s] = Tail(@)]
          /\ UNCHANGED rd
     ELSE /\ rd' = [rd EXCEPT ![e][s] = "waiting"] /\ UNCHANGED <<got, rq>>
  /\ UNCHANGED <<st, appW, sendQ, mutex, inprog, sendCtr, recvCtr, wire, asm, chan, eof, broken>>

ClosedEvent(e, s) == st[e][s] = "closed"
ReaderWait(e, s) ==
  /\ rd[e][s] = "waiting"
  /\ \/ /\ rq[e][s] # <<>>                      \* chanNotEmptyEvent chosen
        /\ rd' = [rd EXCEPT ![e][s] = "idle"] /\ UNCHANGED eof
     \/ /\ ClosedEvent(e, s)                    \* closedChan chosen (possibly with data queued as well)
        /\ IF Recheck /\ rq[e][s] # <<>>
           THEN rd' = [rd EXCEPT ![e][s] = "idle"] /\ UNCHANGED eof
           ELSE /\ rd' = [rd EXCEPT ![e][s] = "idle"]
                /\ eof' = [eof EXCEPT ![e][s] = IF @ \in {"pending", ""} THEN "clean" ELSE @]
  /\ UNCHANGED <<st, appW, sendQ, mutex, inprog, sendCtr, recvCtr, wire, asm, chan, rq, got, broken>>

(* Application close: the request is queued behind the data. *)
AppClose(e, s) ==
  /\ e = "C" /\ CloseC /\ st[e][s] = "open" /\ appW[e][s] = Total(e) /\ appW[e][s] > 0 /\ ~broken
  /\ sendQ' = [sendQ EXCEPT ![e][s] = Append(@, Seg(s, "close", 0))]
  /\ st' = [st EXCEPT ![e][s] = "closing"]
  /\ eof' = [eof EXCEPT ![e][s] = "self"]
  /\ UNCHANGED <<appW, mutex, inprog, sendCtr, recvCtr, wire, asm, chan, rq, got, rd, broken>>

(* C04: an attacker alters authenticated bytes of a piece in flight (bit flip, substitution), removes or
   inserts bytes (every later ciphertext is then opened at the wrong position), or swaps two pieces.
   In each case the next open fails authentication: modelled as a piece whose counter can never match. *)
NTampered == Len(SelectSeq(wire["C"], LAMBDA p : p.ctr < 0)) + Len(SelectSeq(wire["S"], LAMBDA p : p.ctr < 0))
TamperAlter(e) ==
  /\ ~broken /\ wire[e] # <<>> /\ NTampered < Tampers
  /\ \E k \in 1..Len(wire[e]) :
       /\ wire[e][k].ctr >= 0
       /\ wire' = [wire EXCEPT ![e][k].ctr = -1]
  /\ UNCHANGED <<st, appW, sendQ, mutex, inprog, sendCtr, recvCtr, asm, chan, rq, got, rd, eof, broken>>
TamperSwap(e) ==
  /\ ~broken /\ Len(wire[e]) >= 2 /\ NTampered < Tampers
  /\ \E k \in 1..(Len(wire[e]) - 1) :
       wire' = [wire EXCEPT ![e] = [j \in 1..Len(@) |-> IF j = k THEN @[k + 1] ELSE IF j = k + 1 THEN @[k] ELSE @[j]]]
  /\ UNCHANGED <<st, appW, sendQ, mutex, inprog, sendCtr, recvCtr, asm, chan, rq, got, rd, eof, broken>>

Next == \/ \E e \in Ends, s \in Sess : AppWrite(e, s) \/ WriteBegin(e, s) \/ Input(e, s)
                                        \/ ReaderCheck(e, s) \/ ReaderWait(e, s) \/ AppClose(e, s)
        \/ \E e \in Ends : WriteNext(e) \/ RecvPiece(e) \/ TamperAlter(e) \/ TamperSwap(e)

Spec == Init /\ [][Next]_vars

---------------------------------------------------------------------------
Units(n) == [k \in 1..n |-> k]
\* what was handed to the application of session s at e, in hand-over order
Handed(e, s) == got[e][s] \o rq[e][s]

\* C01: exactly once, in order, to the right session (units carry no session tag in the model: a
\* segment is routed by its sid, so isolation is "what arrives for s is a prefix of what s's peer wrote")
PrefixOK == \A e \in Ends, s \in Sess :
              /\ Handed(e, s) = Units(Len(Handed(e, s)))
              /\ Len(Handed(e, s)) <= appW[Peer(e)][s]

\* C01: with the mutex held across the pieces of a segment, the stream never loses framing
NoFramingLoss == (HoldMutex /\ Tampers = 0) => ~broken

\* C03: clean EOF only after everything the closing peer wrote
CloseNoTrunc == \A e \in Ends, s \in Sess :
                  (eof[e][s] = "clean" /\ ~broken) => Len(got[e][s]) = appW[Peer(e)][s]

NeverBroken == ~broken

Finished == /\ \A s \in Sess : Len(got["S"][s]) = NC /\ Len(got["C"][s]) = NS
=============================================================================
