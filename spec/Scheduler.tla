------------------------------ MODULE Scheduler ------------------------------
(***************************************************************************)
(* pkg/protocol/scheduler.go: the controller that decides whether a new    *)
(* client session may be scheduled to an underlay, transcribed method by   *)
(* method.  Time is in seconds; scheduleIdleTime is a process-wide value   *)
(* in [120, 180] (KeyRefreshInterval plus a fixed random part), so the     *)
(* model only advances time by steps that keep every comparison clear of   *)
(* that band: Small = 1 s (a handful of them), Big = 200 s.                *)
(* Not one of the listed properties: part of the growth of the             *)
(* specification towards mux scheduling (DESIGN 9, 12.8).                  *)
(***************************************************************************)
EXTENDS Integers, Sequences, TLC, Json

CONSTANTS MaxSteps
Zero == -1                        \* the zero time.Time
VARIABLES now, pending, last, dis, hist, everDisabled
vars == <<now, pending, last, dis, hist, everDisabled>>

IdleLo == 120
IdleHi == 180
\* time.Since(t) > scheduleIdleTime, decided only outside the uncertain band
LongAgo(t) == now - t > IdleHi
Recent(t) == now - t < IdleLo
Clear(t) == LongAgo(t) \/ Recent(t)

IsDisabled == dis # Zero /\ now - dis > 0
Idle == dis # Zero /\ LongAgo(last) /\ LongAgo(dis)

Init == now = 1000 /\ pending = 0 /\ last = Zero /\ dis = Zero /\ hist = <<>> /\ everDisabled = FALSE
Room == Len(hist) < MaxSteps
Note(op, arg, res) == /\ hist' = Append(hist, [op |-> op, arg |-> arg, res |-> res])
                      /\ everDisabled' = (everDisabled \/ IsDisabled)

Inc == /\ Room
       /\ IF IsDisabled THEN UNCHANGED <<pending, last>> /\ Note("inc", 0, FALSE)
          ELSE pending' = pending + 1 /\ last' = now /\ Note("inc", 0, TRUE)
       /\ UNCHANGED <<now, dis>>
Dec == /\ Room /\ pending > 0
       /\ pending' = pending - 1 /\ last' = now /\ Note("dec", 0, TRUE)
       /\ UNCHANGED <<now, dis>>
TryDisable == /\ Room
              /\ (last = Zero \/ Clear(last))
              /\ IF dis # Zero \/ pending > 0 \/ (last # Zero /\ Recent(last))
                 THEN UNCHANGED dis /\ Note("trydisable", 0, FALSE)
                 ELSE dis' = now /\ Note("trydisable", 0, TRUE)
              /\ UNCHANGED <<now, pending, last>>
SetRemaining(d) == /\ Room
                   /\ IF d < 0 \/ dis # Zero THEN UNCHANGED dis ELSE dis' = now + d
                   /\ Note("setremaining", d, TRUE)
                   /\ UNCHANGED <<now, pending, last>>
Advance(d) == /\ Room /\ now' = now + d /\ Note("advance", d, TRUE) /\ UNCHANGED <<pending, last, dis>>
\* queries (their answers are part of the behaviour that is replayed)
Query == /\ Room
         /\ (dis = Zero \/ (Clear(dis) /\ (last = Zero \/ Clear(last))))
         /\ Note("query", 0, [disabled |-> IsDisabled, idle |-> Idle, distimezero |-> dis = Zero])
         /\ UNCHANGED <<now, pending, last, dis>>

Next == Inc \/ Dec \/ TryDisable \/ Query \/ (\E d \in {-1, 0, 1, 300} : SetRemaining(d)) \/ (\E d \in {1, 200} : Advance(d))
Spec == Init /\ [][Next]_vars

\* what the mux relies on
DisabledIsForever == everDisabled => IsDisabled                       \* scheduling, once disabled, never comes back
IdleImpliesDisabled == Idle => IsDisabled
IncOnlyWhenEnabled == [][(pending' > pending) => ~IsDisabled]_vars
NotDisabledWhilePendingUnlessForced ==                                  \* TryDisableIdle never disables an underlay a dial is pending on
  [][(dis = Zero /\ dis' # Zero /\ pending > 0) => hist'[Len(hist')].op = "setremaining"]_vars
DumpHist == (Len(hist) = MaxSteps) => PrintT(<<"BEH", ToJson(hist)>>)
=============================================================================
