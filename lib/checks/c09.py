"""C09 - what goes on the wire is exactly the documented protocol (third-party interop).

spec          spec/Wire.tla = docs/protocol.md as data (layouts, numbering, key derivation parameters, limits);
              TLC checks its internal consistency and exports wire.json, which parameterises harness/refcodec,
              an implementation that imports no mieru package.  spec/Interop.tla = grammar of what a third-party
              sender may emit within the documented limits.
(a) mieru -> reference   sessions of real muxes are decoded segment by segment (Trace_Session.Decodable, on the
              C01/C02-style scenarios incl. every low-entropy mode/rotation, nonce types, padding extremes)
(b) reference -> mieru   TLC-simulated Interop programmes are encoded by the reference codec and played against a
              real server (reference client) and a real client (reference server), TCP and UDP; first nonces whose
              low-order bytes wrap exercise the documented +1 progression; TLC validates the recorded events
"""
import filecmp
import json
import os
import random
import shutil

import sessions
import vlib
from vlib import Inconclusive

INVS = ["Decodable", "ReadExact", "Completes"]


def wire_consistency(ctx):
    res = vlib.tlc("Wire", timeout=300, tags=("WIRE",))
    if res.error or res.violated or not res.prints:
        raise Inconclusive("Wire.tla: %s %s\n%s" % (res.violated, res.error, res.out[-2000:]))
    ctx.coverage["states"] += 1
    want = res.prints[0][1]
    have = json.load(open(os.path.join(vlib.HARNESS, "refcodec", "wire.json")))
    if want != have:
        raise Inconclusive("harness/refcodec/wire.json is not what Wire.tla exports; regenerate it")
    ctx.coverage.setdefault("tlc_runs", []).append({"what": "Wire.tla consistency ASSUMEs + export", "wall_s": round(res.wall, 1)})


def mieru_to_reference(seed, thorough):
    rnd = random.Random(seed)
    out = []
    P = sessions.pattern
    pats = [P(), P(pad_mid=0, pad_end=0), P(pad_mid=255, pad_end=255),
            P(nonce={"type": "NONCE_TYPE_PRINTABLE", "minLen": 12, "maxLen": 12}),
            P(nonce={"type": "NONCE_TYPE_FIXED", "customHexStrings": ["ffffffffffffffffffffffff"], "applyToAllUDPPacket": True})]
    rots = list(range(31)) if thorough else [0, 1, 8, 14, 15, 16, 23, 29, 30]
    for m in sessions.LE_MODES[1:]:
        for r in rots:
            pats.append(P(le_mode=m, le_rot=sessions.rotation_name(r)))
    k = 0
    for tr in ("tcp", "udp"):
        for p in pats:
            sizes = [1025, 9, 4000] if tr == "udp" else [1025, 9, 40000]
            out.append({"id": "m2r/%s-%d" % (tr, k), "transport": tr, "mtu": rnd.choice([1280, 1400, 1500]), "cpat": p,
                        "spat": rnd.choice(pats), "chunk": -1 if tr == "tcp" else 0, "seed": seed + k, "limit": 900,
                        "expect": "complete",
                        "sessions": sessions.keep_open([{"c": [["w", x] for x in sizes] + [["rn", sum(sizes)]],
                                                         "s": [["rn", sum(sizes)]] + [["w", x] for x in sizes]}])})
            k += 1
    # user names of every length class up to the 64-byte limit: the documented hint hashes user || nonce[:16]
    for tr in ("tcp", "udp"):
        for n in (1, 47, 48, 49, 60, 63, 64):
            out.append({"id": "m2r/%s-username-%d" % (tr, n), "transport": tr, "mtu": 1400, "cpat": pats[0], "spat": pats[0], "seed": seed + k,
                        "limit": 900, "expect": "complete", "user": ("u" * n),
                        "sessions": sessions.keep_open([{"c": [["w", 100], ["rn", 50]], "s": [["rn", 100], ["w", 50]]}])})
            k += 1
    return out


def reference_to_mieru(ctx, n):
    res = vlib.tlc("Interop", simulate=max(200, n), depth=10, seed=ctx.seed, workers=4, timeout=300)
    if res.error or res.violated:
        raise Inconclusive("Interop.tla: %s %s" % (res.violated, res.error))
    ctx.coverage["transitions"] += max(res.generated, len(res.prints))
    seen, progs = set(), []
    for _t, h in res.prints:
        key = json.dumps(h, sort_keys=True)
        if key not in seen and any(s["k"] == "data" for s in h):
            seen.add(key)
            progs.append(h)
    rnd = random.Random(ctx.seed)
    rnd.shuffle(progs)
    out = []
    for k, h in enumerate(progs[:n]):
        tr = ["tcp", "udp"][k % 2]
        role = ["refclient", "refserver"][(k // 2) % 2]
        out.append({"id": "r2m/%d-%s-%s" % (k, role, tr), "transport": tr, "role": role, "mtu": rnd.choice([1280, 1400, 1500]),
                    "noncehigh": tr == "tcp" and k % 5 == 0, "piggyresp": role == "refserver" and tr == "tcp" and (k // 4) % 2 == 0,
                    "seed": ctx.seed * 1000 + k, "steps": h})
    # the rotation values and modes the documentation allows, one programme each (reference client -> real server)
    rots = [0] + list(range(1, 16)) + [16 * x for x in range(1, 16)]
    for r in rots:
        mode = 1 + (r % 4)
        out.append({"id": "r2m/rot%d-mode%d" % (r, mode), "transport": ["tcp", "udp"][r % 2], "role": "refclient",
                    "mtu": 1400, "seed": ctx.seed + r, "steps": [
                        {"k": "open", "pay": 10, "pad2": 0},
                        {"k": "data", "pay": "mid", "pad1": 0, "pad2": 3, "mode": mode, "rot": r, "mask": "rand", "padbit": r % 2},
                        {"k": "data", "pay": "cplus", "pad1": 2, "pad2": 0, "mode": mode, "rot": r, "mask": "alt", "padbit": 1 - r % 2},
                        {"k": "close", "pad2": 0}]})
    return out


def run(ctx):
    ctx.level = "model_checking"
    ctx.coverage["rule"] = ("(a) every segment of real sessions under each pattern is decoded by the independent codec; "
                            "(b) TLC-simulated third-party programmes within the documented limits are played against real "
                            "endpoints in both roles and transports. distinct_nontrivial = distinct programmes/patterns")
    ctx.assumptions += ["'independent' = imports no mieru package, numeric parameters from Wire.tla; same author, same document",
                        "SHA-256, PBKDF2, XChaCha20-Poly1305 primitives (Go std / x/crypto) are trusted"]
    wd = vlib.scratch_dir("verif-c09-")
    try:
        wire_consistency(ctx)
        scen = mieru_to_reference(ctx.seed, ctx.thorough())
        ctx.coverage["distinct_nontrivial"] += len(scen)
        trace = sessions.check_traces(ctx, scen, wd, "c09a", INVS, timeout=2400)
        sessions.sample_trace(ctx, trace, None, n=8)
        progs = reference_to_mieru(ctx, 60 if not ctx.thorough() else 1500)
        ctx.coverage["distinct_nontrivial"] += len(progs)
        pin, pout = os.path.join(wd, "interop.in"), os.path.join(wd, "interop.out")
        with open(pin, "w") as f:
            for p in progs:
                f.write(json.dumps(p) + "\n")
        rc, log, _ = vlib.go_test("./c09/", "TestInterop$", env={"VERIF_IN": pin, "VERIF_OUT": pout}, timeout=2400)
        if rc != 0 or not os.path.exists(pout):
            raise Inconclusive("driver TestInterop failed:\n" + log[-3000:])
        evs = vlib.read_ndjson(pout)
        if sum(1 for e in evs if e["ev"] == "End") + sum(1 for e in evs if e["ev"] == "Fail") < len(progs):
            raise Inconclusive("interop driver finished %d of %d programmes" % (sum(1 for e in evs if e["ev"] == "End"), len(progs)))
        res = vlib.tlc("Trace_Interop", workers=1, timeout=900, env={"VERIF_TRACE": pout}, keep_out=True)
        if res.violated in ("Understood", "EchoExact", "NoFailure", "ServerLEOnlyAfterClient"):
            import re
            m = re.findall(r"/\\ l = (\d+)", res.trace[-1] if res.trace else "")
            line = int(m[-1]) - 1 if m else 0
            bad = evs[line - 1] if 0 < line <= len(evs) else {}
            pid = bad.get("id")
            if not pid:
                for e in evs[:line]:
                    if e["ev"] == "Begin":
                        pid = e["id"]
            prog = next((p for p in progs if p["id"] == pid), None)
            rp = ctx.save_replay("interop_%s.json" % str(pid).replace("/", "_"), {"programme": prog, "violated": res.violated, "event": bad})
            ctx.report("%s: real endpoint and reference implementation disagree in programme %s: %s" % (res.violated, pid, bad),
                       rp, "C09:%s" % res.violated)
        elif res.violated or res.error or not res.finished:
            raise Inconclusive("Trace_Interop: %s %s\n%s" % (res.violated, res.error, res.out[-1500:]))
        else:
            ctx.coverage["states"] += res.distinct
            ctx.coverage["traces_validated_against_impl"] += len(progs)
            ctx.coverage["evaluations"] += len(evs)
            ctx.sample({"kind": "third-party programme played against a real endpoint", "programme": progs[0]})
    finally:
        shutil.rmtree(wd, ignore_errors=True)


def replay(ctx, path):
    rp = json.load(open(path))
    wd = vlib.scratch_dir("verif-c09r-")
    try:
        if "scenario" in rp:
            sessions.check_traces(ctx, [rp["scenario"]], wd, "replay", INVS)
        else:
            pin, pout = os.path.join(wd, "i.in"), os.path.join(wd, "i.out")
            open(pin, "w").write(json.dumps(rp["programme"]) + "\n")
            rc, log, _ = vlib.go_test("./c09/", "TestInterop$", env={"VERIF_IN": pin, "VERIF_OUT": pout}, timeout=600)
            for e in vlib.read_ndjson(pout):
                print(e)
    finally:
        shutil.rmtree(wd, ignore_errors=True)
