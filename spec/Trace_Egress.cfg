SPECIFICATION Spec
INVARIANTS GateReal UnaffectedReal NoLocalConnect NoLocalRelay AllowedGetThrough
POSTCONDITION TraceAccepted
CHECK_DEADLOCK FALSE
