CONSTANTS
  NC = 2
  NS = 1
  Win = 1
  MaxTx = 3
  Drops = 2
  Dups = 0
  Piggy = FALSE
  CloseC = FALSE
  InOrderClose = TRUE
SPECIFICATION Spec
INVARIANTS PrefixOK NoStall NotAbandoned
PROPERTY ProgressNoClose
CHECK_DEADLOCK FALSE
