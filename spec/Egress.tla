------------------------------- MODULE Egress -------------------------------
(***************************************************************************)
(* Egress decision of the mita SOCKS5 back end (pkg/socks5/egress.go) on   *)
(* abstract destination classes x user flags x ordered rule lists, and     *)
(* the destinations of datagrams relayed through a UDP association.        *)
(***************************************************************************)
EXTENDS Integers, Sequences, FiniteSets, TLC, Json

\* destination classes
LoopClasses == {"loop4", "loop4lo", "loop4hi", "loop6", "mappedLoop", "unspec4", "unspec6", "emptyDomain",
                "localNameLower", "localNameUpper", "localNameMixed"}
PrivClasses == {"priv10lo", "priv10hi", "priv172lo", "priv172hi", "priv192lo", "priv192hi", "priv6lo", "priv6hi", "mappedPriv"}
PublicClasses == {"pub4", "pub6", "below127", "above127", "below10", "above10", "below172", "above172",
                  "below192", "above192", "below_fc", "above_fd", "otherDomain"}
Classes == LoopClasses \cup PrivClasses \cup PublicClasses
IsIP(c) == c \notin {"emptyDomain", "localNameLower", "localNameUpper", "localNameMixed", "otherDomain"}

Users == {"anonymous", "unregistered", "plain", "allowPrivate", "allowLoopback", "both"}
AllowLoop(u) == u \in {"allowLoopback", "both"}
AllowPriv(u) == u \in {"allowPrivate", "both"}

Commands == {"connect", "associate"}
Actions == {"DIRECT", "PROXY", "REJECT"}

\* a rule matches "ip" destinations (CIDR covering the destination, or *), "domain" destinations (suffix or *), both, or nothing relevant
RuleKinds == {"matchIP", "matchDomain", "starIP", "starDomain", "noMatch"}
Rule == [kind : RuleKinds, action : Actions]
RuleLists == {<<>>} \cup {<<r>> : r \in Rule} \cup {<<r1, r2>> : r1 \in Rule, r2 \in {r \in Rule : r.kind \in {"starIP", "starDomain", "matchIP"}}}

Matches(r, c) == IF IsIP(c) THEN r.kind \in {"matchIP", "starIP"}
                 ELSE c # "emptyDomain" /\ r.kind \in {"matchDomain", "starDomain"}

RECURSIVE FirstMatch(_, _)
FirstMatch(rs, c) == IF rs = <<>> THEN "DIRECT"
                     ELSE IF Matches(Head(rs), c) THEN Head(rs).action ELSE FirstMatch(Tail(rs), c)

Local(c) == c \in LoopClasses \cup PrivClasses
Allowed(u, c) == IF c \in LoopClasses THEN AllowLoop(u) ELSE IF c \in PrivClasses THEN AllowPriv(u) ELSE TRUE

\* the decision the property demands
Decide(c, u, rs) == IF Local(c) /\ ~Allowed(u, c) THEN "REJECT" ELSE FirstMatch(rs, c)

\* C12
GateHolds == \A c \in Classes, u \in Users, rs \in RuleLists : (Local(c) /\ ~Allowed(u, c)) => Decide(c, u, rs) = "REJECT"
Unaffected == \A c \in Classes, u \in Users, rs \in RuleLists : (~Local(c) \/ Allowed(u, c)) => Decide(c, u, rs) = FirstMatch(rs, c)
FirstWins == \A c \in PublicClasses, u \in Users, r1 \in Rule, r2 \in Rule :
               Matches(r1, c) => Decide(c, u, <<r1, r2>>) = r1.action

\* a datagram relayed through an association goes to the address in its own header, and only if that address is allowed
RelayAllowed(c, u) == ~Local(c) \/ Allowed(u, c)

Table == { [c |-> c, u |-> u, cmd |-> cmd, rules |-> rs, action |-> Decide(c, u, rs)] :
             c \in Classes, u \in Users, cmd \in Commands, rs \in RuleLists }
RelayTable == { [c |-> c, u |-> u, allowed |-> RelayAllowed(c, u)] : c \in Classes, u \in Users }

VARIABLE x
Init == x = 0
Next == x' = x /\ FALSE
=============================================================================
