CONSTANTS
  Sess = {1, 2}
  NC = 2
  NS = 0
  Frag = FALSE
  HoldMutex = TRUE
  CloseC = TRUE
  Tampers = 1
  Recheck = TRUE
INIT Init
NEXT Next
INVARIANTS PrefixOK
CHECK_DEADLOCK FALSE
