SPECIFICATION Spec
INVARIANTS ModelAgreesOnOpen ModelAllowsLanding
POSTCONDITION TraceAccepted
CHECK_DEADLOCK FALSE
