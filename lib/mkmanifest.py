#!/usr/bin/env python3
"""Regenerates MANIFEST.json from the table below (single source of truth)."""
import json, os
HERE = os.path.dirname(os.path.dirname(os.path.abspath(__file__)))
props = [json.loads(l) for l in open(os.path.join(HERE, "properties.jsonl"))]
ids = [p["id"] for p in props]

CHECKS = {
 "C06": dict(
   category="model_checking",
   text="ReplayCache.tla models the two-generation cache action-for-action next to an ideal memory; TLC checks NoMiss/NoFalsePositive exhaustively on small constants; every transition/state of that model is replayed on the real cache in virtual time (return value and sizes compared), and random histories recorded from the real cache at larger constants are validated by TLC against the spec with the property evaluated on the logged answers.",
   note="Trusted: TLC, testing/synctest virtual clock, FNV signatures of test items do not collide. Bounds: 2-3 items, 2 tags+empty, cap 1-2 exhaustive; cap up to 6 on recorded histories.",
   technique="TLA+ spec + TLC exhaustive; model-path replay into pkg/replay; TLC trace validation of recorded histories",
   design="5/C06"),
 "C01": dict(category="model_checking",
   text="SessionStream.tla models sessions multiplexed on one TCP underlay (send mutex, multi-piece segment writes, per-direction AEAD counter, in-order hand-over, two-step Read); TLC checks PrefixOK/NoFramingLoss exhaustively. TLC-simulated application programmes are concretised (size classes incl. 1024/1025, 32764/32768/32769, 29 traffic patterns independently per side, 6 stream chunkings, 1-2+ sessions per connection) and run on real client+server muxes over an in-memory TCP network; an independent decoder follows the wire; every recorded trace is validated by TLC (ReadExact on a position-keyed keystream, TxContiguous, Decodable, Completes).",
   note="Trusted: TLC, testing/synctest virtual time, XChaCha20-Poly1305/PBKDF2 primitives. Sizes/chunkings inside a class are sampled by VERIF_SEED; runs with TCP-fragment sleeps use the wall clock.",
   technique="TLA+ spec + TLC exhaustive/simulation; programme replay on real muxes; TLC trace validation", design="5/C01"),
 "C02": dict(category="model_checking",
   text="SessionPacket.tla models one UDP session (open handshake with deferred data, window, oldest-first retransmission, cumulative ack, heartbeat, give-up) over a dropping/duplicating/reordering network; TLC checks PrefixOK, NoStall, NotAbandoned exhaustively and Progress under weak fairness with a drop budget below the transmission limit. Every fault schedule (by datagram identity) under which the model completes is replayed on real muxes in virtual time, plus named schedules and sustained random loss/dup/reorder over several MTUs, patterns and sessions; TLC validates every recorded trace.",
   note="Trusted: TLC, synctest virtual time. Timers are abstracted in the model (a retransmission fires only when nothing in flight can answer it); congestion control abstracted to a 1-2 segment window.",
   technique="TLA+ spec + TLC exhaustive + liveness; fault-schedule replay keyed by datagram identity; TLC trace validation", design="5/C02"),
 "C03": dict(category="model_checking",
   text="Close is modelled as the code's steps (CloseBegin/CloseTimeout/CloseFlush; close acted on when dispatched; Read as ReaderCheck/ReaderWait); TLC checks CloseNoTrunc on SessionPacket and SessionStream and shows the pre-fix variants violating it. Closing fault schedules from TLC, named close races (reader parked at hook read.wait, backlog of recvQueue+recvChan, lost/overtaken/echoed close requests) and random close points run on real muxes; TLC evaluates CloseNoTrunc at every Read return of every trace.",
   note="Trusted: TLC, synctest, hook read.wait (tag verif). Four genuine defects were found and fixed (known_findings.json).",
   technique="TLA+ spec + TLC exhaustive; gated interleaving replay; TLC trace validation", design="5/C03"),
 "C13": dict(category="model_checking",
   text="AckSound/AckOnWire/NoEarlyDiscard are invariants of SessionPacket.tla (TLC exhaustive). On the real code the check is observational: the simulated network logs deliveries and emissions under one lock, an independent codec decodes every datagram, and TLC evaluates AckSound, RetxSame, SeqDense and TxContiguous at every emitted datagram of every replayed fault schedule (application buffers are reused and overwritten after Write returns, as io.Copy does).",
   note="Trusted: TLC, synctest, reference codec; deliveries are logged before the endpoint can read them and acks are computed before WriteTo, so the comparison cannot false-alarm.",
   technique="TLA+ spec + TLC exhaustive; fault-schedule replay; TLC trace validation of wire events", design="5/C13"),
 "C04": dict(category="fault_enumeration",
   text="SessionStream.tla gains TamperAlter/TamperSwap (any altered, shifted or swapped piece fails the next authenticated open; PrefixOK still holds, TLC exhaustive); on UDP a modified datagram is a drop in SessionPacket.tla. The simulated networks then apply one mutation per run at a concrete byte offset of real traffic: every wire region (nonce, metadata ciphertext/tag, body incl. low-entropy, body tag, padding, boundaries) x {flip, substitute, insert, delete, truncate}, whole-segment swap/drop/duplicate, splices inside and across datagrams, reflection to the sender; TLC evaluates ReadExact (position-keyed keystream) on every recorded trace, and Completes/AckSound on UDP.",
   note="Cryptographic strength of the AEAD is assumed. Offsets inside a region are edge/middle/seeded in the quick tier, every offset in the thorough tier. One genuine protocol-level defect is recorded as a known finding.",
   technique="TLA+ tamper actions + TLC; byte-offset fault enumeration on real muxes; TLC trace validation", design="5/C04"),
 "C09": dict(category="model_checking",
   text="Wire.tla is docs/protocol.md as data (three metadata layouts, numbering, key-derivation constants, limits) with consistency ASSUMEs; TLC exports it as the parameter file of refcodec, an implementation that imports no mieru package. (a) every segment of real sessions under each pattern/mode/rotation is decoded by it (Trace_Session.Decodable); (b) TLC-simulated Interop.tla programmes (padding 0..255, piggyback 0..1024, every mode/rotation/mask class/padding bit, ack-only segments, first nonces that wrap their low-order bytes) are encoded by it and played against a real server and a real client on both transports; TLC validates Understood/EchoExact on the recorded events.",
   note="'Independent' means no mieru import and parameters from the spec; same author and same document. Primitives (SHA-256, PBKDF2, XChaCha20-Poly1305) are trusted.",
   technique="TLA+ transcription of the protocol + independent codec; two-way interop runs; TLC trace validation", design="5/C09"),
 "C14": dict(category="model_checking",
   text="WireSize.tla states fragment size, low-entropy encoded length, padding budgets and datagram length for every segment kind; TLC checks Fits over MTU 1280..1500 x 5 modes x configured maxima x boundary sizes and exports a boundary table; every row is compared with the real maxPaddingSizeWithTrafficPattern / maxFragmentSize / lowEntropyEncodedPayloadLen; UDP sessions at the budget boundaries (several user names = both padding strategies, piggybacked first writes up to 1024, forced retransmissions) are run and TLC checks FitsMTU/FitsFields on every emitted datagram.",
   note="Trusted: TLC, accessors (tag verif) forward to the unexported functions. Random padding draws are sampled on the wire; the table comparison does not depend on them.",
   technique="TLA+ size model evaluated exhaustively by TLC; table comparison with the real functions; TLC trace validation of datagram sizes", design="5/C14"),
 "C16": dict(category="model_checking",
   text="TrafficPattern.tla models Validate and implicit generation (draws over the coded intervals); TLC checks that explicit fields are kept and every effective pattern is complete and valid for all originals of the nonce group and of the other fields, and that the pre-fix generator is not. Every exported original x seeds goes through the real NewConfig and TLC validates the result (explicit kept, implicit in range, valid, deterministic, survives Encode/Decode). Explicit patterns are run independently per side on both transports and TLC checks PadOK, NonceOK and LEOK on every emitted segment; effective patterns of sampled originals are run end to end.",
   note="Intervals of implicit draws are the ones coded (the documentation only names 'limited' vs 'all'). One genuine defect found and fixed.",
   technique="TLA+ spec + TLC exhaustive; generated-configuration replay into NewConfig; TLC trace validation", design="5/C16"),
}

def _doc(mod):
    import ast
    d = ast.get_docstring(ast.parse(open(os.path.join(HERE, "lib", "checks", mod + ".py")).read())) or ""
    return " ".join(d.split())

AUTO = {  # property -> (category, trusted base / bounds, technique)
 "C05": ("model_checking", "Trusted: TLC, synctest virtual time, reference codec (builds the genuine templates), AEAD strength. Bounds: quick tier samples prefixes (every 3rd + all cuts in the padding and at region boundaries) and bits (every 7th); thorough tier takes every prefix and every bit of four segment shapes. The adversary's copies are of segments the server never received intact (an intact copy arriving first is simply the genuine handshake).",
         "TLA+ spec + TLC exhaustive (with two violating variants); adversary-class replay on a real server mux; TLC validation of the recorded event stream"),
 "C07": ("model_checking", "Trusted: TLC, SHA-256/AEAD. Bounds: three names (one pair colliding on the 4-byte hint, found by birthday search), source caches of up to two users, four credential classes; reload rows sampled in the quick tier, all 19840 in the thorough tier.",
         "TLA+ spec + TLC exhaustive evaluation; table replay into serveruser.Registry; TLC validation of recorded outcomes; concurrent reload run under the race detector"),
 "C08": ("model_checking", "Trusted: TLC, synctest clocks (whole seconds). Two bubbles stand in for two machines; only bytes cross.",
         "TLA+ arithmetic spec evaluated exhaustively by TLC; boundary-pair replay between a real client and a real server at different virtual clocks; TLC trace validation"),
 "C11": ("model_checking", "Trusted: TLC. Input classes are those of the method list / credential / placement product; byte-level variants per class are enumerated, not exhaustive over all strings.",
         "TLA+ decision table + TLC; byte-string replay against a real socks5.Server; TLC validation of recorded negotiations"),
 "C12": ("model_checking", "Trusted: TLC; the sandbox's loopback interfaces. Private-range effect runs use a stand-in address when the sandbox allows adding one. One genuine design gap (UDP association header addresses) is a known finding.",
         "TLA+ spec + TLC exhaustive table; request replay into FindAction and effect runs on a real server; TLC trace validation"),
 "C17": ("model_checking", "Trusted: TLC as evaluator of the 64-bit operators; GODEBUG=cpu.bmi2=off selects the portable path. Exhaustive at reduced width (W=8), vector-based at full width.",
         "TLA+ codec algebra checked exhaustively at reduced width; TLC-evaluated vectors compared with the real codec on both CPU paths"),
 "C18": ("model_checking", "Trusted: TLC. Byte alphabet abstracted to the two markers and 'other'; up to two datagrams per model case, concretised with boundary sizes.",
         "TLA+ framing automata + TLC exhaustive; case replay through the real tunnel, wrapper and relay; TLC trace validation"),
 "C19": ("model_checking", "Trusted: TLC, synctest time. Counter model exhaustive at scaled units; recorded histories validated at the real constants.",
         "TLA+ specs + TLC exhaustive; TLC validation of recorded counter histories at real constants; quota-case replay on real muxes"),
 "C10": ("exploration", "Trusted: TLC (generator and monitor), reference codec, the supervisor's reading of the child's exit. This is directed exploration of an unbounded input language, not a proof: field classes are boundary values, 1-3 lying fields per unit, 24 steps per behaviour; quick tier 32 behaviours and ~1800 SOCKS5 units, thorough tier 600 behaviours and every enumerated SOCKS5 class member in every world. Two genuine defects (cross-user session id panic; atomic.Value panic in the UDP relay loops) found and fixed.",
         "TLA+ input-language specs; TLC-simulated / enumerated hostile inputs replayed against real endpoints in a supervised child process; TLC validation of the event streams"),
 "C15": ("model_checking", "Trusted: TLC, the Go scheduler and wall clock of a loaded machine (bounds: 1.5 s deadline slack, 4 s local close, 9 s remote close / failure / Close itself), pprof goroutine labels for leak attribution, the race detector. Real time, not virtual: schedules are 14 steps; quick tier 36 simulated + 34 named schedules on both transports, thorough tier 400 + idle periods beyond the 60 s idle timeout. Seven genuine defects fixed, one recorded as a known finding.",
         "TLA+ spec + TLC exhaustive (with a violating variant); schedule replay on real muxes in real time with timed operations; TLC validation of the timed records; race detector run"),
 "C20": ("model_checking", "Trusted: TLC. Field values inside a class are adversarial samples; the set of fields is the model's.",
         "TLA+ merge spec + TLC; case replay through the real store / patch / link functions on both file formats; TLC trace validation"),
}
for _pid, (_cat, _note, _tech) in AUTO.items():
    CHECKS[_pid] = dict(category=_cat, text=_doc(_pid.lower()), note=_note, technique=_tech, design="5/" + _pid)
CHECKS["C06"]["text"] += " Protocol half: " + _doc("c06proto")
CHECKS["C06"]["technique"] += "; replay of recorded genuine traffic against a real server mux with TLC validation of the event stream (ServerIngress.tla)"

import subprocess
HOOK_COMMITS = subprocess.run("git -C /repo log --format=%h --grep='^verif hooks'", shell=True, capture_output=True, text=True).stdout.split()
PENDING = "check not built yet in this session (planned, see DESIGN.md section 5)"

m = {
 "version": 1,
 "setup_cmd": "cd /verif/harness && GOFLAGS=-mod=mod GOPROXY=off GOSUMDB=off GOTOOLCHAIN=local go1.26.8 vet -tags verif ./... ",
 "hooks": {
   "guard": "verif",
   "enable": "go1.26.8 test -tags verif (harness module /verif/harness with replace github.com/enfein/mieru/v3 => /repo)",
   "baseline_off_cmd": "cd /repo && GOFLAGS=-mod=mod GOPROXY=off GOSUMDB=off go test -vet=off -count=1 -timeout 25m ./...",
   "source_commits": HOOK_COMMITS,
   "add_only": True,
 },
 "engines": [
   {"name": "tlc", "path": "/verif/lib/vlib.py", "serves_properties": sorted(CHECKS), "kind_free_text": "TLC 1.8 model checker: exhaustive design check, behaviour generation, trace validation"},
   {"name": "harness", "path": "/verif/harness", "serves_properties": sorted(CHECKS), "kind_free_text": "Go drivers (go1.26.8, testing/synctest) that replay model behaviours into the real code and record traces from it"},
 ],
 "checks": [],
 "not_applicable": [],
 "notes": "Family: model-based verification with explicit TLA+ specifications (spec/*.tla) bound to the code by behaviour replay and trace validation. See DESIGN.md.",
}
for pid in ids:
    if pid in CHECKS:
        c = CHECKS[pid]
        m["checks"].append({
          "property_id": pid,
          "quick_cmd": "./check %s --tier quick" % pid,
          "thorough_cmd": "./check %s --tier thorough" % pid,
          "evidence_file": "/verif/evidence/%s.json" % pid,
          "replay_cmd_template": "./check %s --replay {path}" % pid,
          "engine": "tlc+harness",
          "level_claimed": {"category": c["category"], "text": c["text"], "design_ref": c["design"]},
          "level_note": c["note"],
          "technique": c["technique"],
        })
    else:
        m["not_applicable"].append({"property_id": pid, "reason": PENDING})
json.dump(m, open(os.path.join(HERE, "MANIFEST.json"), "w"), indent=1)
print("MANIFEST.json: %d checks, %d not_applicable" % (len(m["checks"]), len(m["not_applicable"])))
