// Reference peers written only against docs/protocol.md (via refcodec) talking to real mieru endpoints.
package c09

import (
	"bytes"
	"context"
	crand "crypto/rand"
	"encoding/binary"
	"encoding/json"
	"errors"
	"fmt"
	"io"
	"math/rand"
	"net"
	"sync"
	"sync/atomic"
	"testing"
	"testing/synctest"
	"time"

	"github.com/enfein/mieru/v3/apis/trafficpattern"
	"github.com/enfein/mieru/v3/pkg/appctl/appctlpb"
	"github.com/enfein/mieru/v3/pkg/common"
	"github.com/enfein/mieru/v3/pkg/protocol"
	"google.golang.org/protobuf/proto"

	"verifharness/refcodec"
	"verifharness/sessrun"
	"verifharness/simnet"
	"verifharness/vt"
)

type step struct {
	K      string `json:"k"`
	Pay    any    `json:"pay"`
	Pad1   int    `json:"pad1"`
	Pad2   int    `json:"pad2"`
	Mode   int    `json:"mode"`
	Rot    int    `json:"rot"`
	Mask   string `json:"mask"`
	Padbit int    `json:"padbit"`
}

type prog struct {
	ID        string `json:"id"`
	Transport string `json:"transport"`
	Role      string `json:"role"` // refclient | refserver
	MTU       int    `json:"mtu"`
	NonceHigh bool   `json:"noncehigh"`
	PiggyResp bool   `json:"piggyresp"` // reference server: the first bytes of its answer ride on the openSessionResponse (docs/protocol.md allows up to 1024)
	Seed      int64  `json:"seed"`
	Steps     []step `json:"steps"`
}

type event struct {
	I    int    `json:"i"`
	Ev   string `json:"ev"`
	ID   string `json:"id"`
	Pt   int    `json:"pt"`
	N    int    `json:"n"`
	Sent int    `json:"sent"`
	Ok   bool   `json:"ok"`
	LE   bool   `json:"le"`
	Err  string `json:"err"`
}

const user, pass = sessrun.User, sessrun.Pass

func mask(kind string, ones int, r *rand.Rand) uint32 {
	var m uint32
	switch kind {
	case "low":
		m = uint32(uint64(1)<<uint(ones) - 1)
	case "high":
		m = ^uint32(uint64(1)<<uint(32-ones) - 1)
	case "alt":
		m = 0x55555555
		for b := 1; b < 32 && bitsOn(m) < ones; b += 2 {
			m |= 1 << uint(b)
		}
	default:
		pos := r.Perm(32)
		for _, p := range pos[:ones] {
			m |= 1 << uint(p)
		}
	}
	return m
}

func bitsOn(m uint32) int {
	n := 0
	for ; m != 0; m &= m - 1 {
		n++
	}
	return n
}

// size of a data payload for a class, transport, mode and padding, within the documented limits
func dataSize(class string, tr string, mtu, mode, pad1, pad2 int) int {
	c := 16
	if mode > 0 {
		c = refcodec.W.LEModes[mode-1].C
	}
	max := refcodec.W.StreamFragment[mode]
	if tr == "udp" {
		room := mtu - 88 - pad1 - pad2
		if mode == 0 {
			max = room
		} else {
			max = room / 8 * c
		}
	}
	n := map[string]int{"one": 1, "cminus": c - 1, "c": c, "cplus": c + 1, "mid": 1000, "max": max}[class]
	if n > max {
		n = max
	}
	if n < 1 {
		n = 1
	}
	return n
}

// a first nonce whose low-order bytes are about to wrap, so that the documented "+1" carries far
// (a fresh one per call: reusing a nonce would rightly trip the replay cache)
func wrapNonce() []byte {
	found := make(chan []byte, 16)
	var stop atomic.Bool
	for w := 0; w < 12; w++ {
		go func(w int) {
			n := make([]byte, 24)
			crand.Read(n)
			for i := 16; i < 20; i++ {
				n[i] = 0xff
			}
			for ctr := uint64(0); !stop.Load(); ctr++ {
				binary.BigEndian.PutUint64(n[0:8], ctr)
				h := refcodec.Hint(user, n)
				if h[0] == 0xff && h[1] == 0xff && h[2] == 0xff {
					out := append([]byte(nil), n...)
					copy(out[20:], h)
					found <- out
					return
				}
			}
		}(w)
	}
	out := <-found
	stop.Store(true)
	return out
}

func freshNonce(r *rand.Rand) []byte {
	n := make([]byte, 24)
	r.Read(n)
	return n
}

func padding(n int, r *rand.Rand) []byte {
	p := make([]byte, n)
	r.Read(p)
	return p
}

func startServer(t *testing.T, p *prog, pnet *simnet.PacketNet, snet *simnet.StreamNet) (*protocol.Mux, net.Addr) {
	smux := protocol.NewMux(false)
	smux.SetServerUsers(map[string]*appctlpb.User{user: {Name: proto.String(user), Password: proto.String(pass)}})
	le := &appctlpb.TrafficPattern{LowEntropy: &appctlpb.LowEntropyPattern{Mode: appctlpb.LowEntropyMode_LOW_ENTROPY_MODE_48.Enum(),
		MaskRotation: appctlpb.LowEntropyMaskRotation_LOW_ENTROPY_MASK_ROTATE_RIGHT_3.Enum()}}
	cfg, _ := trafficpattern.NewConfig(le)
	smux.SetTrafficPattern(cfg)
	var addr net.Addr
	if p.Transport == "udp" {
		addr = &net.UDPAddr{IP: net.IPv4(10, 1, 0, 1), Port: 7000}
		smux.SetPacketListenerFactory(pnet)
		smux.SetEndpoints([]protocol.UnderlayProperties{protocol.NewUnderlayProperties(p.MTU, common.PacketTransport, addr, nil)})
	} else {
		addr = &net.TCPAddr{IP: net.IPv4(10, 1, 0, 1), Port: 7000}
		smux.SetStreamListenerFactory(snet)
		smux.SetEndpoints([]protocol.UnderlayProperties{protocol.NewUnderlayProperties(p.MTU, common.StreamTransport, addr, nil)})
	}
	if err := smux.Start(); err != nil {
		t.Fatalf("server start: %v", err)
	}
	go func() {
		for {
			c, err := smux.Accept()
			if err != nil {
				return
			}
			go func() { io.Copy(c, c); c.Close() }()
		}
	}()
	return smux, addr
}

// runRefClient: the reference implementation is the CLIENT of a real mieru server (echo application).
func runRefClient(t *testing.T, p *prog, emit func(event)) {
	r := rand.New(rand.NewSource(p.Seed))
	pnet, snet := simnet.NewPacketNet(), simnet.NewStreamNet()
	smux, _ := startServer(t, p, pnet, snet)
	defer func() { smux.Close(); time.Sleep(150 * time.Second) }()
	hashed := refcodec.HashedPassword(user, pass)
	key := refcodec.KeyAt(hashed, time.Now().Unix())
	keys := refcodec.Keys3(hashed, time.Now().Unix())
	sid := uint32(0x1000 + r.Intn(1<<20))
	var sent, echoed []byte
	var seq uint32
	usedLE := false
	var mu sync.Mutex
	srvNext := uint32(0) // next server seq expected (UDP cumulative)
	gotSeq := map[uint32]bool{}
	handle := func(seg *refcodec.Segment) {
		mu.Lock()
		defer mu.Unlock()
		m := seg.Meta
		isLE := refcodec.IsLowEntropy(m.Type)
		okType := m.Type == 3 || m.Type == 7 || m.Type == 9 || m.Type == 11 || m.Type == 4 || m.Type == 5
		emit(event{Ev: "Recv", ID: p.ID, Pt: int(m.Type), N: len(seg.Payload), Ok: okType && m.SID == sid, LE: isLE && !usedLE})
		if m.SID != sid || refcodec.IsAck(m.Type) || m.Type == 4 || m.Type == 5 {
			return
		}
		if p.Transport == "udp" {
			if gotSeq[m.Seq] {
				return
			}
			gotSeq[m.Seq] = true
		}
		// in-order assembly (TCP is in order; UDP runs are lossless and in order as well)
		echoed = append(echoed, seg.Payload...)
		for gotSeq[srvNext] {
			srvNext++
		}
	}
	var send func(m refcodec.Meta, payload, pad1, pad2 []byte, padbit uint8)
	done := make(chan struct{})
	if p.Transport == "tcp" {
		cli, _, err := snet.Dial("10.2.0.9", "10.1.0.1:7000")
		if err != nil {
			emit(event{Ev: "Fail", ID: p.ID, Err: "dial: " + err.Error()})
			return
		}
		defer cli.Close()
		enc := &refcodec.StreamEncoder{Key: key, User: user}
		first := freshNonce(r)
		if p.NonceHigh {
			first = wrapNonce()
			enc.User = "" // hint already embedded
		}
		send = func(m refcodec.Meta, payload, pad1, pad2 []byte, padbit uint8) {
			cli.Write(enc.Encode(first, m, payload, pad1, pad2, padbit))
		}
		go func() {
			defer close(done)
			dec := &refcodec.StreamDecoder{Keys: keys}
			buf := make([]byte, 65536)
			for {
				n, err := cli.Read(buf)
				if n > 0 {
					for _, seg := range dec.Feed(buf[:n]) {
						handle(seg)
					}
					if dec.Err != nil {
						emit(event{Ev: "Recv", ID: p.ID, Ok: false, Err: "undecodable: " + dec.Err.Error()})
						return
					}
				}
				if err != nil {
					return
				}
			}
		}()
	} else {
		sock, _ := pnet.Listen("10.2.0.9:0")
		defer sock.Close()
		dst := &net.UDPAddr{IP: net.IPv4(10, 1, 0, 1), Port: 7000}
		send = func(m refcodec.Meta, payload, pad1, pad2 []byte, padbit uint8) {
			mu.Lock()
			m.UnAck = srvNext
			mu.Unlock()
			sock.WriteTo(refcodec.EncodeDatagram(key, user, freshNonce(r), m, payload, pad1, pad2, padbit), dst)
		}
		go func() {
			defer close(done)
			buf := make([]byte, 2048)
			for {
				n, _, err := sock.ReadFrom(buf)
				if err != nil {
					return
				}
				seg, derr := refcodec.DecodeDatagram(keys, buf[:n])
				if derr != nil {
					emit(event{Ev: "Recv", ID: p.ID, Ok: false, Err: "undecodable: " + derr.Error()})
					continue
				}
				if n > p.MTU {
					emit(event{Ev: "Recv", ID: p.ID, Ok: false, Err: fmt.Sprintf("datagram of %d bytes exceeds MTU", n)})
				}
				handle(seg)
				if !refcodec.IsAck(seg.Meta.Type) && seg.Meta.Type != 5 && seg.Meta.Type != 4 {
					// acknowledge what arrived
					mu.Lock()
					una := srvNext
					s := seq
					mu.Unlock()
					a := refcodec.Meta{Type: 8, Timestamp: uint32(time.Now().Unix() / 60), SID: sid, Seq: s - 1, UnAck: una, Win: 256}
					sock.WriteTo(refcodec.EncodeDatagram(key, user, freshNonce(r), a, nil, nil, nil, 0), dst)
				}
			}
		}()
	}
	stamp := func() uint32 { return uint32(time.Now().Unix() / 60) }
	for _, st := range p.Steps {
		switch st.K {
		case "open":
			n := int(st.Pay.(float64))
			pl := sessrun.KS(0, 0, int64(len(sent)), n)
			sent = append(sent, pl...)
			send(refcodec.Meta{Type: 2, Timestamp: stamp(), SID: sid, Seq: seq}, pl, nil, padding(st.Pad2, r), 0)
			seq++
			if p.NonceHigh {
				// many small segments so that the implicit nonce wraps its low-order bytes
				for k := 0; k < 300; k++ {
					b := sessrun.KS(0, 0, int64(len(sent)), 1)
					sent = append(sent, b...)
					send(refcodec.Meta{Type: 6, Timestamp: stamp(), SID: sid, Seq: seq, Win: 256}, b, nil, nil, 0)
					seq++
				}
			}
		case "data":
			pad1, pad2 := st.Pad1, st.Pad2
			if p.Transport == "udp" && pad1+pad2 > p.MTU-88-64 {
				pad2 = 0
			}
			n := dataSize(st.Pay.(string), p.Transport, p.MTU, st.Mode, pad1, pad2)
			pl := sessrun.KS(0, 0, int64(len(sent)), n)
			sent = append(sent, pl...)
			m := refcodec.Meta{Type: 6, Timestamp: stamp(), SID: sid, Seq: seq, Win: 256}
			if st.Mode > 0 {
				m.Type = 10
				m.LEMode = uint8(st.Mode)
				m.LERot = uint8(st.Rot)
				m.LEMask = mask(st.Mask, refcodec.W.LEModes[st.Mode-1].Ones, r)
				mu.Lock()
				usedLE = true
				mu.Unlock()
			}
			send(m, pl, padding(pad1, r), padding(pad2, r), uint8(st.Padbit))
			seq++
		case "ack":
			send(refcodec.Meta{Type: 8, Timestamp: stamp(), SID: sid, Seq: seq - 1, Win: 256}, nil, padding(st.Pad1, r), padding(st.Pad2, r), 0)
		case "close":
			// wait for the echo before closing
			deadline := time.Now().Add(30 * time.Second)
			for time.Now().Before(deadline) {
				mu.Lock()
				full := len(echoed) >= len(sent)
				mu.Unlock()
				if full {
					break
				}
				time.Sleep(20 * time.Millisecond)
			}
			send(refcodec.Meta{Type: 4, Timestamp: stamp(), SID: sid, Seq: seq}, nil, nil, padding(st.Pad2, r), 0)
			seq++
		}
		time.Sleep(5 * time.Millisecond)
	}
	time.Sleep(2 * time.Second)
	mu.Lock()
	ok := bytes.Equal(echoed, sent)
	emit(event{Ev: "End", ID: p.ID, N: len(echoed), Sent: len(sent), Ok: ok})
	mu.Unlock()
}

// runRefServer: the reference implementation is the SERVER of a real mieru client.
func runRefServer(t *testing.T, p *prog, emit func(event)) {
	r := rand.New(rand.NewSource(p.Seed))
	pnet, snet := simnet.NewPacketNet(), simnet.NewStreamNet()
	hashed := refcodec.HashedPassword(user, pass)
	// parameters of the server's data segments come from the programme's data steps, cyclically
	var dsteps []step
	for _, st := range p.Steps {
		if st.K == "data" {
			dsteps = append(dsteps, st)
		}
	}
	if len(dsteps) == 0 {
		dsteps = []step{{K: "data", Pay: "mid"}}
	}
	var total int
	for _, st := range p.Steps {
		switch st.K {
		case "open":
			total += int(st.Pay.(float64))
		case "data":
			total += dataSize(st.Pay.(string), p.Transport, p.MTU, 0, 0, 0)
		}
	}
	if total == 0 {
		total = 1
	}
	cmux := protocol.NewMux(true)
	cmux.SetClientUserNamePassword(user, refcodec.HashedPassword(user, pass))
	cmux.SetClientMultiplexFactor(0)
	cmux.SetResolver(nilResolver{})
	stop := make(chan struct{})
	var wg sync.WaitGroup
	k := 0
	nextParams := func() step { s := dsteps[k%len(dsteps)]; k++; return s }
	// echo one received payload as one or more server data segments
	type out func(m refcodec.Meta, payload, pad1, pad2 []byte, padbit uint8)
	echo := func(send out, sid uint32, sseq *uint32, una uint32, payload []byte) {
		for len(payload) > 0 {
			st := nextParams()
			pad1, pad2 := st.Pad1, st.Pad2
			if p.Transport == "udp" && pad1+pad2 > p.MTU-88-64 {
				pad2 = 0
			}
			n := dataSize("max", p.Transport, p.MTU, st.Mode, pad1, pad2)
			if p.NonceHigh && *sseq < 300 {
				n = 1 // many small segments so that the implicit nonce wraps its low-order bytes
			}
			if n > len(payload) {
				n = len(payload)
			}
			m := refcodec.Meta{Type: 7, Timestamp: uint32(time.Now().Unix() / 60), SID: sid, Seq: *sseq, UnAck: una, Win: 256}
			if st.Mode > 0 {
				m.Type = 11
				m.LEMode = uint8(st.Mode)
				m.LERot = uint8(st.Rot)
				m.LEMask = mask(st.Mask, refcodec.W.LEModes[st.Mode-1].Ones, r)
			}
			send(m, payload[:n], padding(pad1, r), padding(pad2, r), uint8(st.Padbit))
			*sseq++
			payload = payload[n:]
		}
	}
	if p.Transport == "tcp" {
		l, _ := snet.Listen(context.Background(), "tcp", "10.1.0.1:7000")
		cmux.SetDialer(snet.Dialer("10.2.0.1"))
		cmux.SetEndpoints([]protocol.UnderlayProperties{protocol.NewUnderlayProperties(p.MTU, common.StreamTransport, nil, &net.TCPAddr{IP: net.IPv4(10, 1, 0, 1), Port: 7000})})
		wg.Add(1)
		go func() {
			defer wg.Done()
			c, err := l.Accept()
			if err != nil {
				return
			}
			defer c.Close()
			dec := &refcodec.StreamDecoder{Keys: refcodec.Keys3(hashed, time.Now().Unix())}
			var enc *refcodec.StreamEncoder
			first := freshNonce(r)
			if p.NonceHigh {
				first = wrapNonce()
			}
			var sseq uint32
			buf := make([]byte, 65536)
			for {
				n, err := c.Read(buf)
				if n > 0 {
					for _, seg := range dec.Feed(buf[:n]) {
						if enc == nil {
							enc = &refcodec.StreamEncoder{Key: dec.Keys[dec.KeyIndex], User: user}
							if p.NonceHigh {
								enc.User = ""
							}
						}
						send := func(m refcodec.Meta, payload, pad1, pad2 []byte, padbit uint8) {
							c.Write(enc.Encode(first, m, payload, pad1, pad2, padbit))
						}
						m := seg.Meta
						emit(event{Ev: "Recv", ID: p.ID, Pt: int(m.Type), N: len(seg.Payload), Ok: true})
						switch {
						case m.Type == 2:
							pig := 0
							if p.PiggyResp {
								pig = len(seg.Payload)
								if pig > 1024 {
									pig = 1024
								}
							}
							send(refcodec.Meta{Type: 3, Timestamp: uint32(time.Now().Unix() / 60), SID: m.SID, Seq: sseq}, seg.Payload[:pig], nil, padding(nextParams().Pad2, r), 0)
							sseq++
							echo(send, m.SID, &sseq, 0, seg.Payload[pig:])
						case refcodec.IsData(m.Type):
							echo(send, m.SID, &sseq, 0, seg.Payload)
						case m.Type == 4:
							send(refcodec.Meta{Type: 5, Timestamp: uint32(time.Now().Unix() / 60), SID: m.SID, Seq: sseq}, nil, nil, nil, 0)
							sseq++
						}
					}
					if dec.Err != nil {
						emit(event{Ev: "Recv", ID: p.ID, Ok: false, Err: "undecodable: " + dec.Err.Error()})
						return
					}
				}
				if err != nil {
					return
				}
			}
		}()
		defer l.Close()
	} else {
		sock, _ := pnet.Listen("10.1.0.1:7000")
		cmux.SetPacketDialer(pnet.Dialer("10.2.0.1"))
		cmux.SetEndpoints([]protocol.UnderlayProperties{protocol.NewUnderlayProperties(p.MTU, common.PacketTransport, nil, &net.UDPAddr{IP: net.IPv4(10, 1, 0, 1), Port: 7000})})
		wg.Add(1)
		go func() {
			defer wg.Done()
			var sseq, cnext uint32
			seen := map[uint32]bool{}
			buf := make([]byte, 2048)
			for {
				sock.SetReadDeadline(time.Now().Add(500 * time.Millisecond))
				n, from, err := sock.ReadFrom(buf)
				select {
				case <-stop:
					return
				default:
				}
				if err != nil {
					continue
				}
				keys := refcodec.Keys3(hashed, time.Now().Unix())
				seg, derr := refcodec.DecodeDatagram(keys, buf[:n])
				if derr != nil {
					emit(event{Ev: "Recv", ID: p.ID, Ok: false, Err: "undecodable: " + derr.Error()})
					continue
				}
				key := keys[seg.KeyIndex]
				send := func(m refcodec.Meta, payload, pad1, pad2 []byte, padbit uint8) {
					sock.WriteTo(refcodec.EncodeDatagram(key, user, freshNonce(r), m, payload, pad1, pad2, padbit), from)
				}
				m := seg.Meta
				emit(event{Ev: "Recv", ID: p.ID, Pt: int(m.Type), N: len(seg.Payload), Ok: n <= p.MTU})
				if refcodec.IsAck(m.Type) {
					continue
				}
				if m.Type == 4 {
					send(refcodec.Meta{Type: 5, Timestamp: uint32(time.Now().Unix() / 60), SID: m.SID, Seq: sseq}, nil, nil, nil, 0)
					continue
				}
				if m.Type == 5 {
					continue
				}
				dup := seen[m.Seq]
				seen[m.Seq] = true
				for seen[cnext] {
					cnext++
				}
				if dup {
					send(refcodec.Meta{Type: 9, Timestamp: uint32(time.Now().Unix() / 60), SID: m.SID, Seq: sseq - 1, UnAck: cnext, Win: 256}, nil, nil, nil, 0)
					continue
				}
				if m.Type == 2 {
					send(refcodec.Meta{Type: 3, Timestamp: uint32(time.Now().Unix() / 60), SID: m.SID, Seq: sseq}, nil, nil, padding(nextParams().Pad2, r), 0)
					sseq++
				}
				if len(seg.Payload) > 0 {
					echo(send, m.SID, &sseq, cnext, seg.Payload)
				} else {
					send(refcodec.Meta{Type: 9, Timestamp: uint32(time.Now().Unix() / 60), SID: m.SID, Seq: sseq - 1, UnAck: cnext, Win: 256}, nil, nil, nil, 0)
				}
			}
		}()
		defer sock.Close()
	}
	// the real client application
	ctx, cancel := context.WithTimeout(context.Background(), 20*time.Second)
	conn, err := cmux.DialContext(ctx)
	cancel()
	if err != nil {
		emit(event{Ev: "Fail", ID: p.ID, Err: "dial: " + err.Error()})
	} else {
		var sent []byte
		got := make([]byte, 0, total)
		rdone := make(chan struct{})
		go func() {
			defer close(rdone)
			buf := make([]byte, 65536)
			for len(got) < total {
				n, err := conn.Read(buf)
				got = append(got, buf[:n]...)
				if err != nil {
					var ne net.Error
					if errors.As(err, &ne) && ne.Timeout() {
						continue
					}
					return
				}
			}
		}()
		for _, st := range p.Steps {
			var n int
			switch st.K {
			case "open":
				n = int(st.Pay.(float64))
				if len(sent) == 0 && n == 0 {
					n = 1
					total++
				}
			case "data":
				n = dataSize(st.Pay.(string), p.Transport, p.MTU, 0, 0, 0)
			default:
				continue
			}
			pl := sessrun.KS(0, 0, int64(len(sent)), n)
			sent = append(sent, pl...)
			if _, err := conn.Write(pl); err != nil {
				emit(event{Ev: "Fail", ID: p.ID, Err: "write: " + err.Error()})
				break
			}
		}
		select {
		case <-rdone:
		case <-time.After(60 * time.Second):
		}
		conn.Close()
		<-rdone
		emit(event{Ev: "End", ID: p.ID, N: len(got), Sent: len(sent), Ok: bytes.Equal(got, sent)})
	}
	close(stop)
	cmux.Close()
	if p.Transport == "tcp" {
		// accept loop ends when the listener closes (deferred)
	}
	time.Sleep(150 * time.Second)
	wg.Wait()
}

type nilResolver struct{}

func (nilResolver) LookupIP(ctx context.Context, network, host string) ([]net.IP, error) {
	return []net.IP{net.ParseIP(host)}, nil
}

// TestInterop runs every programme of VERIF_IN and logs events to VERIF_OUT.
func TestInterop(t *testing.T) {
	out := vt.MustCreate(t, "VERIF_OUT")
	defer out.Close()
	n := 0
	vt.ReadLines(t, "VERIF_IN", func(line []byte) {
		p := &prog{}
		if err := json.Unmarshal(line, p); err != nil {
			t.Fatalf("bad programme: %v", err)
		}
		if p.MTU == 0 {
			p.MTU = 1400
		}
		var mu sync.Mutex
		var evs []event
		emit := func(e event) {
			mu.Lock()
			n++
			e.I = n
			evs = append(evs, e)
			mu.Unlock()
		}
		synctest.Test(t, func(t *testing.T) {
			emit(event{Ev: "Begin", ID: p.ID, Err: p.Role + "/" + p.Transport})
			if p.Role == "refclient" {
				runRefClient(t, p, emit)
			} else {
				runRefServer(t, p, emit)
			}
			mu.Lock()
			for _, e := range evs {
				out.Emit(e)
			}
			mu.Unlock()
			out.Flush()
		})
	})
}
