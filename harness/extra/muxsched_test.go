package extra

import (
	"bufio"
	"context"
	"encoding/json"
	"io"
	"net"
	"os"
	"sort"
	"strings"
	"sync"
	"testing"
	"testing/synctest"
	"time"

	"github.com/enfein/mieru/v3/pkg/appctl/appctlpb"
	"github.com/enfein/mieru/v3/pkg/common"
	"github.com/enfein/mieru/v3/pkg/protocol"
	"google.golang.org/protobuf/proto"

	"verifharness/refcodec"
	"verifharness/simnet"
)

// muxsched_test.go replays behaviours of spec/MuxSchedule.tla (sequentialised: each pick/attach pair of the model is one DialContext)
// on a real client mux over the in-memory TCP network in virtual time, and records where every session landed and which underlays
// the client still holds open after every time step.

type mstep struct {
	Op string `json:"op"`
	U  int    `json:"u"`
	N  int    `json:"n"`
}

type mrec struct {
	B      int    `json:"b"`
	Ev     string `json:"ev"` // dial | end | advance
	Landed int    `json:"landed"`
	Fresh  bool   `json:"fresh"`
	U      int    `json:"u"`
	N      int    `json:"n"`
	Open   []int  `json:"open"`
	Ok     bool   `json:"ok"`
	Note   string `json:"note"`
}

type nilResolver struct{}

func (nilResolver) LookupIP(ctx context.Context, network, host string) ([]net.IP, error) {
	return []net.IP{net.ParseIP(host)}, nil
}

func TestMuxSchedule(t *testing.T) {
	in := os.Getenv("VERIF_IN")
	if in == "" {
		t.Skip("VERIF_IN not set")
	}
	f, err := os.Open(in)
	if err != nil {
		t.Fatal(err)
	}
	defer f.Close()
	out, _ := os.Create(os.Getenv("VERIF_OUT"))
	defer out.Close()
	enc := json.NewEncoder(out)
	sc := bufio.NewScanner(f)
	sc.Buffer(make([]byte, 1<<20), 1<<24)
	b := 0
	for sc.Scan() {
		line := strings.TrimSpace(sc.Text())
		if line == "" {
			continue
		}
		var steps []mstep
		if err := json.Unmarshal([]byte(line), &steps); err != nil {
			t.Fatal(err)
		}
		b++
		var recs []mrec
		synctest.Test(t, func(t *testing.T) {
			const user, pass = "muxuser", "mux-secret"
			snet := simnet.NewStreamNet()
			var mu sync.Mutex
			order := map[string]int{} // client local address of an underlay -> creation index
			connOf := map[int]int{}   // simnet connection id -> creation index
			open := map[int]bool{}
			snet.OnDial = func(conn int, c, s *simnet.StreamConn) {
				mu.Lock()
				k := len(order) + 1
				order[c.LocalAddr().String()] = k
				connOf[conn] = k
				open[k] = true
				mu.Unlock()
			}
			snet.OnClose = func(conn int, clientSide bool) {
				if clientSide {
					mu.Lock()
					delete(open, connOf[conn])
					mu.Unlock()
				}
			}
			addr := &net.TCPAddr{IP: net.IPv4(10, 1, 0, 1), Port: 7000}
			smux := protocol.NewMux(false)
			smux.SetServerUsers(map[string]*appctlpb.User{user: {Name: proto.String(user), Password: proto.String(pass)}})
			smux.SetStreamListenerFactory(snet)
			smux.SetEndpoints([]protocol.UnderlayProperties{protocol.NewUnderlayProperties(1400, common.StreamTransport, addr, nil)})
			if err := smux.Start(); err != nil {
				t.Fatalf("server start: %v", err)
			}
			go func() {
				for {
					c, err := smux.Accept()
					if err != nil {
						return
					}
					go func() { io.Copy(io.Discard, c); c.Close() }()
				}
			}()
			cmux := protocol.NewMux(true)
			cmux.SetClientUserNamePassword(user, refcodec.HashedPassword(user, pass))
			cmux.SetResolver(nilResolver{})
			cmux.SetClientMultiplexFactor(2)
			cmux.SetDialer(snet.Dialer("10.2.0.1"))
			cmux.SetEndpoints([]protocol.UnderlayProperties{protocol.NewUnderlayProperties(1400, common.StreamTransport, nil, addr)})
			openList := func() []int {
				mu.Lock()
				defer mu.Unlock()
				l := []int{}
				for k := range open {
					l = append(l, k)
				}
				sort.Ints(l)
				return l
			}
			sessions := map[int][]net.Conn{} // underlay index -> live sessions
			for _, st := range steps {
				switch st.Op {
				case "pick":
					// one DialContext stands for the pick/attach pair of the model
					mu.Lock()
					before := len(order)
					mu.Unlock()
					ctx, cancel := context.WithTimeout(context.Background(), 5*time.Second)
					c, err := cmux.DialContext(ctx)
					cancel()
					if err != nil {
						recs = append(recs, mrec{B: b, Ev: "dial", Ok: false, Note: err.Error(), Open: openList()})
						continue
					}
					c.Write([]byte("x"))
					time.Sleep(50 * time.Millisecond)
					mu.Lock()
					k := order[c.LocalAddr().String()]
					fresh := len(order) > before && k == len(order)
					mu.Unlock()
					sessions[k] = append(sessions[k], c)
					recs = append(recs, mrec{B: b, Ev: "dial", Landed: k, Fresh: fresh, Ok: true, Open: openList()})
				case "end":
					// the model names an underlay; close one of the sessions that really live there (if the real dials landed elsewhere, any)
					u := st.U
					if len(sessions[u]) == 0 {
						for k, l := range sessions {
							if len(l) > 0 {
								u = k
								break
							}
						}
					}
					if l := sessions[u]; len(l) > 0 {
						l[len(l)-1].Close()
						sessions[u] = l[:len(l)-1]
						time.Sleep(1200 * time.Millisecond) // the close handshake
						recs = append(recs, mrec{B: b, Ev: "end", U: u, Ok: true, Open: openList()})
					}
				case "advance":
					time.Sleep(time.Duration(st.N) * time.Second)
					recs = append(recs, mrec{B: b, Ev: "advance", N: st.N, Ok: true, Open: openList()})
				}
			}
			for _, l := range sessions {
				for _, c := range l {
					c.Close()
				}
			}
			time.Sleep(3 * time.Second)
			cmux.Close()
			smux.Close()
			time.Sleep(150 * time.Second)
		})
		for i := range recs {
			enc.Encode(&recs[i])
		}
	}
}
