CONSTANTS
  MaxSteps = 6
SPECIFICATION Spec
INVARIANTS DisabledIsForever IdleImpliesDisabled
PROPERTIES IncOnlyWhenEnabled NotDisabledWhilePendingUnlessForced
CHECK_DEADLOCK FALSE
