------------------------------ MODULE Lifecycle ------------------------------
(***************************************************************************)
(* C15: the life cycle of one proxy connection seen from the two           *)
(* applications that hold its ends (net.Conn contract), over abstract      *)
(* time.  An end can start a Read or a Write (which may block), set or     *)
(* clear deadlines, close the connection (repeatedly), or stop its whole   *)
(* mux; the network under the connection can fail abruptly.  The           *)
(* specification says when every operation must have returned and with     *)
(* which class of result:                                                  *)
(*   - an operation never outlives a deadline in force when it started;    *)
(*     a deadline stays in force for every later operation until changed   *)
(*   - Close / mux Close at either end and an underlay failure release     *)
(*     every blocked operation at both ends within the propagation bound   *)
(*   - Close itself returns within CloseBound, however often repeated      *)
(*   - after both muxes are closed nothing of them keeps running           *)
(* TLC checks the model (every pending operation is released by the rule   *)
(* that applies) and generates the schedules replayed on the real muxes.   *)
(***************************************************************************)
EXTENDS Integers, Sequences, FiniteSets, TLC, Json

CONSTANTS MaxSteps, Persist   \* Persist = TRUE: deadlines stay in force (net.Conn); FALSE: a deadline is consumed by the first call (the code before the fix)
Ends == {"C", "S"}
Peer(e) == IF e = "C" THEN "S" ELSE "C"
None == -1

VARIABLES now,        \* abstract time (ticks)
          rdl, wdl,   \* per end: read / write deadline (tick) or None
          closed,     \* per end: tick at which the application closed (conn or mux) or None
          down,       \* tick at which the underlay failed or None
          inbox,      \* per end: bytes that can be read
          reading,    \* per end: the pending Read [start, dl] or None-record
          stopped,    \* per end: the application has stopped reading for good (back-pressure on the peer)
          want,       \* per end: the read deadline the net.Conn contract says is in force (ghost)
          hist
vars == <<now, rdl, wdl, closed, down, inbox, reading, stopped, want, hist>>

NoOp == [start |-> None, dl |-> None, want |-> None]
Init == /\ now = 0 /\ rdl = [e \in Ends |-> None] /\ wdl = [e \in Ends |-> None] /\ closed = [e \in Ends |-> None] /\ down = None
        /\ inbox = [e \in Ends |-> 0] /\ reading = [e \in Ends |-> NoOp] /\ stopped = [e \in Ends |-> FALSE] /\ want = [e \in Ends |-> None] /\ hist = <<>>

Log(r) == hist' = Append(hist, r)
Room == Len(hist) < MaxSteps

\* why a pending Read at e must return now (the first that applies), or "-" if it may keep waiting
ReadRelease(e) ==
  IF reading[e].start = None THEN "-"
  ELSE IF inbox[e] > 0 THEN "data"
  ELSE IF closed[e] # None THEN "closed"
  ELSE IF closed[Peer(e)] # None THEN "eof"
  ELSE IF down # None THEN "failed"
  ELSE IF reading[e].dl # None /\ now >= reading[e].dl THEN "timeout"
  ELSE "-"

StartRead(e) == /\ Room /\ reading[e].start = None /\ ~stopped[e]
                /\ reading' = [reading EXCEPT ![e] = [start |-> now, dl |-> rdl[e], want |-> want[e]]]
                /\ rdl' = IF Persist THEN rdl ELSE [rdl EXCEPT ![e] = None]
                /\ Log([op |-> "read", ep |-> e])
                /\ UNCHANGED <<now, wdl, closed, down, inbox, stopped, want>>
ReadReturns(e) == /\ ReadRelease(e) # "-"
                  /\ inbox' = [inbox EXCEPT ![e] = 0]
                  /\ reading' = [reading EXCEPT ![e] = NoOp]
                  /\ UNCHANGED <<now, rdl, wdl, closed, down, stopped, want, hist>>
Write(e) == /\ Room /\ closed[e] = None
            /\ inbox' = IF closed[Peer(e)] = None /\ down = None THEN [inbox EXCEPT ![Peer(e)] = @ + 1] ELSE inbox
            /\ wdl' = IF Persist THEN wdl ELSE [wdl EXCEPT ![e] = None]
            /\ Log([op |-> "write", ep |-> e])
            /\ UNCHANGED <<now, rdl, closed, down, reading, stopped, want>>
SetReadDl(e, d) == /\ Room /\ closed[e] = None
                   /\ rdl' = [rdl EXCEPT ![e] = IF d = 0 THEN None ELSE now + d]
                   /\ want' = [want EXCEPT ![e] = IF d = 0 THEN None ELSE now + d]
                   /\ Log([op |-> "rdl", ep |-> e, d |-> d])
                   /\ UNCHANGED <<now, wdl, closed, down, inbox, reading, stopped>>
SetWriteDl(e, d) == /\ Room /\ closed[e] = None
                    /\ wdl' = [wdl EXCEPT ![e] = IF d = 0 THEN None ELSE now + d]
                    /\ Log([op |-> "wdl", ep |-> e, d |-> d])
                    /\ UNCHANGED <<now, rdl, closed, down, inbox, reading, stopped, want>>
Close(e, how) == /\ Room /\ Len(hist) >= 5
                 /\ closed' = [closed EXCEPT ![e] = IF @ = None THEN now ELSE @]
                 /\ Log([op |-> how, ep |-> e])
                 /\ UNCHANGED <<now, rdl, wdl, down, inbox, reading, stopped, want>>
\* "fail": the network drops everything (TCP reset / UDP black hole); "fin": the peer's side of the TCP connection goes away in an
\* orderly way between two segments, without any close request (process killed, middlebox tear-down)
Fail(how) == /\ Room /\ Len(hist) >= 5 /\ down = None /\ down' = now /\ Log([op |-> how, ep |-> "-"])
        /\ UNCHANGED <<now, rdl, wdl, closed, inbox, reading, stopped, want>>
StopReading(e) == /\ Room /\ ~stopped[e] /\ reading[e].start = None /\ stopped' = [stopped EXCEPT ![e] = TRUE]
                  /\ Log([op |-> "stopread", ep |-> e]) /\ UNCHANGED <<now, rdl, wdl, closed, down, inbox, reading, want>>
\* time passes only when nothing is due: a pending Read whose release condition holds returns first
Tick(n) == /\ Room /\ \A e \in Ends : ReadRelease(e) = "-"
           /\ now' = now + n /\ Log([op |-> "pause", ep |-> "-", d |-> n])
           /\ UNCHANGED <<rdl, wdl, closed, down, inbox, reading, stopped, want>>

Next == \/ \E e \in Ends : StartRead(e) \/ ReadReturns(e) \/ Write(e) \/ StopReading(e)
        \/ \E e \in Ends, d \in {-1, 0, 1, 3} : SetReadDl(e, d)
        \/ \E e \in Ends : SetWriteDl(e, 2)
        \/ \E e \in Ends, how \in {"close", "mclose"} : Close(e, how)
        \/ \E how \in {"fail", "fin"} : Fail(how)
        \/ \E n \in {1, 2} : Tick(n)
Spec == Init /\ [][Next]_vars

\* C15 in the model: the deadline a Read runs under is the one the contract says is in force (set earlier and not changed since)
DeadlineBounds == \A e \in Ends : reading[e].start # None => reading[e].dl = reading[e].want
Done == Len(hist) = MaxSteps
DumpHist == Done => PrintT(<<"BEH", ToJson(hist)>>)
=============================================================================
