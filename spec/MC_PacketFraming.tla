-------------------------- MODULE MC_PacketFraming --------------------------
EXTENDS PacketFraming
ASSUME RoundTrip(2)
ASSUME Truncation(2)
ASSUME BadMarkers(2)
ASSUME Oversize
\* cases for the binding: every sequence of up to two datagrams, plus three-datagram sequences over the edge contents
Edge == {<<>>, <<0>>, <<255>>, <<0, 255>>, <<255, 0>>, <<7, 7, 7>>, <<0, 0, 0>>, <<255, 255, 255>>}
Cases == Seqs(2) \cup {<<a, b, c>> : a \in Edge, b \in Edge, c \in Edge}
ASSUME PrintT(<<"CASES", ToJson(Cases)>>)
=============================================================================
