----------------------------- MODULE Socks5Auth -----------------------------
(***************************************************************************)
(* SOCKS5 method negotiation + RFC 1929 sub-negotiation of the local       *)
(* listener (pkg/socks5/auth.go), as a transcript automaton over abstract  *)
(* inputs.  One negotiation =  Greet -> [Select] -> [SubNeg] -> Served?    *)
(***************************************************************************)
EXTENDS Integers, FiniteSets, Sequences, TLC, Json

\* abstract method list: which of the two relevant methods occur, and whether anything is offered at all
MethodClass == [has00 : BOOLEAN, has02 : BOOLEAN, others : BOOLEAN, empty : BOOLEAN]
Methods == {m \in MethodClass : (m.empty => ~m.has00 /\ ~m.has02 /\ ~m.others) /\ (~m.empty => m.has00 \/ m.has02 \/ m.others)}
Creds == 0..3                       \* number of configured user/password pairs; 3 = one pair whose password is 256 bytes long
                                    \* (configured, but RFC 1929 cannot carry it: nobody can ever supply it)
\* what the application supplies in the sub-negotiation
Supplied == {"match", "match2", "wrongUser", "wrongPass", "emptyBoth", "emptyPass", "long255", "badVersion",
             "truncVer", "truncUser", "truncPass", "swapped", "caseUser",
             "crossPair", "crossPair2"}      \* the user name of one configured pair with the password of the other
Placement == {"clientSide", "serverSide"}

Input == [m : Methods, creds : Creds, sup : Supplied, place : Placement]

\* PreferNoAuth = TRUE models the code before the fix (no-auth wins whenever it is offered together with user/pass)
CONSTANT PreferNoAuth

PairOK(i) == \/ i.sup = "match" /\ i.creds \in {1, 2}
             \/ i.sup = "match2" /\ i.creds = 2

\* selected method: 0 = no auth, 2 = user/pass, 255 = no acceptable (replied), -1 = connection dropped without reply
Select(i) ==
  IF i.m.empty THEN -1
  ELSE IF ~i.m.has00 /\ ~i.m.has02 THEN 255
  ELSE IF i.creds = 0 THEN (IF i.m.has00 THEN 0 ELSE -1)
  ELSE \* credentials configured
       IF PreferNoAuth /\ i.m.has00 /\ i.m.has02 THEN 0
       ELSE IF i.m.has02 THEN 2 ELSE -1

\* sub-negotiation status: 0 success, 1 failure (replied), -1 no reply / not reached
Status(i) ==
  IF Select(i) # 2 THEN -1
  ELSE IF i.sup \in {"badVersion", "truncVer", "truncUser", "truncPass"} THEN -1
  ELSE IF PairOK(i) THEN 0 ELSE 1

Served(i) == Select(i) = 0 \/ (Select(i) = 2 /\ Status(i) = 0)
Authenticated(i) == Select(i) = 2 /\ Status(i) = 0 /\ PairOK(i)

\* C11
Gate == \A i \in Input : (i.creds > 0 /\ Served(i)) => Authenticated(i)
NoCredsRule == \A i \in Input : i.creds = 0 =>
                  /\ (i.m.has00 => Select(i) = 0 /\ Served(i))
                  /\ (~i.m.has00 => ~Served(i))
                  /\ Select(i) # 2
OnlyConfiguredPairs == \A i \in Input : Authenticated(i) => i.sup \in {"match", "match2"}

Table == { [m |-> i.m, creds |-> i.creds, sup |-> i.sup, place |-> i.place, sel |-> Select(i), status |-> Status(i),
            served |-> Served(i)] : i \in Input }

VARIABLE x
Init == x = 0
Next == x' = x /\ FALSE
=============================================================================
