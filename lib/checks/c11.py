"""C11 - with SOCKS5 credentials configured, nothing is proxied without them.

design spec   spec/Socks5Auth.tla: method negotiation + RFC 1929 sub-negotiation as a function of abstract inputs
              (method-list class x configured pairs x supplied credentials class x placement); TLC checks Gate,
              NoCredsRule, OnlyConfiguredPairs over all inputs and exports the decision table; the variant with
              PreferNoAuth = TRUE (the code before the fix) violates Gate
spec -> code  every table row is concretised into several byte strings (orders, duplicates, 255 methods, fillers
              GSSAPI/private/0xFF; 255-byte and empty credentials; truncations) and played against a real
              socks5.Server in both placements; a pipelined CONNECT shows whether anything is served
code -> spec  TLC validates every recorded negotiation: GateReal / NoCredsReal on what the server did, and
              conformance with the transcript automaton
"""
import json
import os
import shutil

import vlib
from vlib import Inconclusive


def run(ctx):
    ctx.level = "model_checking"
    ctx.coverage["rule"] = ("all abstract inputs of Socks5Auth.tla x byte-level variants; distinct_nontrivial = distinct "
                            "(input, variant) negotiations played")
    ctx.assumptions += ["real-time run (loopback stub listener); a negotiation that draws no reply within 0.7-0.9 s counts as no reply"]
    wd = vlib.scratch_dir("verif-c11-")
    try:
        res = vlib.tlc("MC_Socks5Auth", "MC_Socks5Auth", timeout=300, tags=("TABLE",))
        if res.violated or res.error or not res.prints:
            raise Inconclusive("Socks5Auth model: %s %s\n%s" % (res.violated, res.error, res.out[-1500:]))
        table = res.prints[0][1]
        ctx.coverage["states"] += 1
        ctx.coverage["transitions"] += len(table)
        ctx.coverage.setdefault("tlc_runs", []).append({"what": "Socks5Auth Gate/NoCredsRule/OnlyConfiguredPairs over %d inputs" % len(table),
                                                       "wall_s": round(res.wall, 1)})
        pre = vlib.tlc("MC_Socks5Auth", "MC_Socks5Auth_prefix", timeout=300, tags=("TABLE",), keep_out=True)
        detects = "GateInv" in (pre.out or "") and pre.rc != 0
        ctx.coverage["model_detects_prefix_defect"] = detects
        if not detects:
            raise Inconclusive("sanity: PreferNoAuth model should violate Gate")
        tin, tout = os.path.join(wd, "table.ndjson"), os.path.join(wd, "neg.ndjson")
        vlib.write_ndjson(tin, table)
        variants = 2 if not ctx.thorough() else 12
        rc, log, _ = vlib.go_test("./c11/", "TestNegotiations$", env={"VERIF_IN": tin, "VERIF_OUT": tout, "VERIF_VARIANTS": variants,
                                                                       "VERIF_SEED": ctx.seed}, timeout=2400)
        if rc != 0 or not os.path.exists(tout):
            raise Inconclusive("driver TestNegotiations failed:\n" + log[-3000:])
        got = vlib.read_ndjson(tout)
        if len(got) != len(table) * variants:
            raise Inconclusive("driver played %d of %d negotiations" % (len(got), len(table) * variants))
        ctx.coverage["evaluations"] += len(got)
        ctx.coverage["distinct_nontrivial"] += len(got)
        ctx.sample({"kind": "negotiation played against the real server", "record": got[len(got) // 3]})
        for cfgname, kind in (("Trace_Socks5Auth", "property"), ("Trace_Socks5Auth_conf", "conformance")):
            remaining = tout
            for attempt in range(6):
                r = vlib.tlc("Trace_Socks5Auth", cfgname, workers=1, timeout=1500, env={"VERIF_TRACE": remaining}, keep_out=True)
                if r.violated in ("GateReal", "NoCredsReal", "Conforms"):
                    import re
                    m = re.findall(r"/\\ l = (\d+)", r.trace[-1] if r.trace else "")
                    line = int(m[-1]) - 1 if m else 1
                    cur = vlib.read_ndjson(remaining)
                    bad = cur[line - 1]
                    if kind == "property":
                        sig = "C11:%s" % r.violated
                        if r.violated == "GateReal" and bad["m"]["has00"] and bad["m"]["has02"] and bad["sel"] == 0:
                            sig = "C11:noauth-preferred-when-both-offered"
                        rp = ctx.save_replay("neg_%s_%d.json" % (r.violated, attempt), bad)
                        ctx.report("%s: methods=%s creds=%d supplied=%s placement=%s -> selected=%s status=%s served=%s"
                                   % (r.violated, bad["m"], bad["creds"], bad["sup"], bad["place"], bad["sel"], bad["status"], bad["served"]),
                                   rp, sig)
                    else:
                        ctx.drift.append("server deviates from Socks5Auth.tla on %s" % {k: bad[k] for k in ("m", "creds", "sup", "place", "sel", "status", "served", "msel", "mstatus", "mserved")})
                    rest = os.path.join(wd, "%s.rest%d.ndjson" % (kind, attempt))
                    vlib.write_ndjson(rest, cur[line:])
                    if not cur[line:] or kind == "conformance":
                        break
                    remaining = rest
                    continue
                if r.violated or r.error or not r.finished:
                    raise Inconclusive("Trace_Socks5Auth: %s %s\n%s" % (r.violated, r.error, r.out[-1500:]))
                if kind == "property":
                    ctx.coverage["states"] += r.distinct
                    ctx.coverage["traces_validated_against_impl"] += r.distinct - 1
                break
    finally:
        shutil.rmtree(wd, ignore_errors=True)


def replay(ctx, path):
    print(json.load(open(path)))
