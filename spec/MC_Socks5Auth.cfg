CONSTANTS
  PreferNoAuth = FALSE
INIT Init
NEXT Next
INVARIANTS GateInv RulesInv
CHECK_DEADLOCK FALSE
