-------------------------- MODULE Trace_HostilePeer --------------------------
(* Validates the event stream of the hostile-peer driver: B = a behaviour starts, S = a step is about to be sent (units carry their  *)
(* classes), V = the victim (another user's session in the same process) completed or failed an echo, E = the behaviour and the     *)
(* shutdown of its endpoints finished, Crash = the process that ran the real endpoints died (appended by the supervisor).           *)
EXTENDS Integers, Sequences, FiniteSets, TLC, Json, IOUtils
VARIABLES l, running, own, victim, alive, hist, rng
HP == INSTANCE HostilePeer WITH MaxUnits <- 1000, Role <- "server"
HPC == INSTANCE HostilePeer WITH MaxUnits <- 1000, Role <- "client"
Trace == ndJsonDeserialize(IOEnv.VERIF_TRACE)
Init == l = 1 /\ running = -1 /\ own = "none" /\ victim = "live" /\ alive = TRUE /\ hist = <<>> /\ rng = 1
Next == /\ l <= Len(Trace) /\ l' = l + 1
        /\ LET r == Trace[l] IN
           /\ running' = IF r.ev = "B" THEN r.id ELSE IF r.ev = "E" THEN -1 ELSE running
           /\ alive' = (alive /\ r.ev # "Crash")
           /\ victim' = IF r.ev = "V" /\ ~r.ok THEN "broken" ELSE IF r.ev = "V" THEN "live" ELSE victim
        /\ UNCHANGED <<own, hist, rng>>
Spec == Init /\ [][Next]_<<l, running, own, victim, alive, hist, rng>>
R == Trace[l - 1]
Seen == l > 1
\* C10 on what happened to the real process and the real victim
NoCrash == HP!Alive
VictimKeepsWorking == HP!VictimUnaffected
\* conformance: what was sent is a member of the specification's language for that role
InLanguage == (Seen /\ R.ev = "S" /\ R.op = "unit") =>
                 IF R.role = "server" THEN HP!IsUnit(R.u) /\ ~HP!Honest(R.u) ELSE HPC!IsUnit(R.u) /\ ~HPC!Honest(R.u)
TraceAccepted == TLCGet("stats").diameter - 1 = Len(Trace)
=============================================================================
