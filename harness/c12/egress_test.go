// Binds spec/Egress.tla to pkg/socks5: decision table rows -> Server.FindAction, and effect runs against a real
// socks5.Server in server role with listeners on loopback (and, when the sandbox allows, a stand-in private address).
package c12

import (
	"context"
	"encoding/binary"
	"encoding/json"
	"fmt"
	"io"
	"net"
	"os/exec"
	"strings"
	"sync"
	"sync/atomic"
	"testing"
	"time"

	apicommon "github.com/enfein/mieru/v3/apis/common"
	"github.com/enfein/mieru/v3/pkg/appctl/appctlpb"
	"github.com/enfein/mieru/v3/pkg/egress"
	"github.com/enfein/mieru/v3/pkg/socks5"
	"google.golang.org/protobuf/proto"

	"verifharness/vt"
)

type rule struct {
	Kind   string `json:"kind"`
	Action string `json:"action"`
}

type drow struct {
	C      string `json:"c"`
	U      string `json:"u"`
	Cmd    string `json:"cmd"`
	Rules  []rule `json:"rules"`
	Action string `json:"action"`
}

// concrete representatives of every destination class: (atyp, address bytes or name)
type dest struct {
	atyp byte
	ip   net.IP
	name string
}

func reps(class string, variant int) dest {
	ip4 := func(s string) dest { return dest{atyp: 1, ip: net.ParseIP(s).To4()} }
	ip6 := func(s string) dest { return dest{atyp: 4, ip: net.ParseIP(s).To16()} }
	pick := func(xs ...dest) dest { return xs[variant%len(xs)] }
	names := []string{"localhost", "localhost4", "localhost.localdomain", "localhost4.localdomain4", "localhost6", "ip6-localhost", "ip6-loopback", "localhost6.localdomain6"}
	n := names[variant%len(names)]
	mixed := func(s string) string {
		b := []byte(s)
		for i := range b {
			if i%2 == (variant/8)%2 && b[i] >= 'a' && b[i] <= 'z' {
				b[i] -= 32
			}
		}
		return string(b)
	}
	switch class {
	case "loop4":
		return pick(ip4("127.0.0.1"), ip4("127.0.0.53"), ip4("127.1.2.3"))
	case "loop4lo":
		return ip4("127.0.0.0")
	case "loop4hi":
		return ip4("127.255.255.255")
	case "loop6":
		return ip6("::1")
	case "mappedLoop":
		return pick(ip6("::ffff:127.0.0.1"), ip6("::ffff:127.255.255.254"))
	case "unspec4":
		return ip4("0.0.0.0")
	case "unspec6":
		return ip6("::")
	case "emptyDomain":
		return dest{atyp: 3, name: ""}
	case "localNameLower":
		return dest{atyp: 3, name: n}
	case "localNameUpper":
		return dest{atyp: 3, name: strings.ToUpper(n)}
	case "localNameMixed":
		return dest{atyp: 3, name: mixed(n)}
	case "priv10lo":
		return ip4("10.0.0.0")
	case "priv10hi":
		return ip4("10.255.255.255")
	case "priv172lo":
		return ip4("172.16.0.0")
	case "priv172hi":
		return ip4("172.31.255.255")
	case "priv192lo":
		return ip4("192.168.0.0")
	case "priv192hi":
		return ip4("192.168.255.255")
	case "priv6lo":
		return ip6("fc00::")
	case "priv6hi":
		return ip6("fdff:ffff:ffff:ffff:ffff:ffff:ffff:ffff")
	case "mappedPriv":
		return pick(ip6("::ffff:10.0.0.1"), ip6("::ffff:192.168.1.1"), ip6("::ffff:172.16.0.1"))
	case "pub4":
		return pick(ip4("8.8.8.8"), ip4("1.1.1.1"), ip4("203.0.113.9"))
	case "pub6":
		return ip6("2001:db8::1")
	case "below127":
		return ip4("126.255.255.255")
	case "above127":
		return ip4("128.0.0.0")
	case "below10":
		return ip4("9.255.255.255")
	case "above10":
		return ip4("11.0.0.0")
	case "below172":
		return ip4("172.15.255.255")
	case "above172":
		return ip4("172.32.0.0")
	case "below192":
		return ip4("192.167.255.255")
	case "above192":
		return ip4("192.169.0.0")
	case "below_fc":
		return ip6("fbff:ffff:ffff:ffff:ffff:ffff:ffff:ffff")
	case "above_fd":
		return ip6("fe00::")
	case "otherDomain":
		return pick(dest{atyp: 3, name: "example.com"}, dest{atyp: 3, name: "www.Example.ORG"}, dest{atyp: 3, name: strings.Repeat("a", 255)})
	}
	panic("unknown class " + class)
}

func request(cmd string, d dest, port int) []byte {
	c := byte(1)
	if cmd == "associate" {
		c = 3
	}
	b := []byte{5, c, 0, d.atyp}
	switch d.atyp {
	case 1, 4:
		b = append(b, d.ip...)
	case 3:
		b = append(b, byte(len(d.name)))
		b = append(b, d.name...)
	}
	return append(b, byte(port>>8), byte(port))
}

func users() map[string]*appctlpb.User {
	return map[string]*appctlpb.User{
		"plain":         {Name: proto.String("plain"), Password: proto.String("x")},
		"allowPrivate":  {Name: proto.String("allowPrivate"), Password: proto.String("x"), AllowPrivateIP: proto.Bool(true)},
		"allowLoopback": {Name: proto.String("allowLoopback"), Password: proto.String("x"), AllowLoopbackIP: proto.Bool(true)},
		"both":          {Name: proto.String("both"), Password: proto.String("x"), AllowPrivateIP: proto.Bool(true), AllowLoopbackIP: proto.Bool(true)},
	}
}

func envOf(u string) map[string]string {
	switch u {
	case "anonymous":
		return nil
	case "unregistered":
		return map[string]string{"user": "ghost"}
	}
	return map[string]string{"user": u}
}

func egressConfig(rs []rule, d dest) *appctlpb.Egress {
	eg := &appctlpb.Egress{Proxies: []*appctlpb.EgressProxy{{Name: proto.String("p1"), Protocol: appctlpb.ProxyProtocol_SOCKS5_PROXY_PROTOCOL.Enum(),
		Host: proto.String("198.51.100.7"), Port: proto.Int32(1080)}}}
	for _, r := range rs {
		er := &appctlpb.EgressRule{Action: appctlpb.EgressAction(appctlpb.EgressAction_value[r.Action]).Enum()}
		if r.Action == "PROXY" {
			er.ProxyNames = []string{"p1"}
		}
		switch r.Kind {
		case "matchIP":
			if d.ip != nil {
				if d.atyp == 1 {
					er.IpRanges = []string{"192.0.2.0/24", d.ip.String() + "/32"}
				} else {
					er.IpRanges = []string{d.ip.String() + "/128"}
					if v4 := d.ip.To4(); v4 != nil {
						er.IpRanges = append(er.IpRanges, v4.String()+"/32")
					}
				}
			} else {
				er.IpRanges = []string{"0.0.0.0/0", "::/0"}
			}
		case "starIP":
			er.IpRanges = []string{"*"}
		case "matchDomain":
			if d.name != "" {
				parts := strings.Split(d.name, ".")
				er.DomainNames = []string{"nomatch.invalid", strings.Join(parts[len(parts)/2:], ".")}
				if len(parts) == 1 {
					er.DomainNames = []string{d.name}
				}
			} else {
				er.DomainNames = []string{"com"}
			}
		case "starDomain":
			er.DomainNames = []string{"*"}
		case "noMatch":
			er.IpRanges = []string{"203.0.113.128/25"}
			er.DomainNames = []string{"nomatch.invalid"}
		}
		eg.Rules = append(eg.Rules, er)
	}
	return eg
}

// TestDecisions: every table row -> real FindAction.
func TestDecisions(t *testing.T) {
	out := vt.MustCreate(t, "VERIF_OUT")
	defer out.Close()
	variants := vt.EnvInt("VERIF_VARIANTS", 2)
	vt.ReadLines(t, "VERIF_IN", func(line []byte) {
		var r drow
		if err := json.Unmarshal(line, &r); err != nil {
			t.Fatalf("bad row: %v", err)
		}
		nv := variants
		if strings.HasPrefix(r.C, "localName") && nv < 16 {
			nv = 16 // every well-known local name (eight of them, IPv4- and IPv6-flavoured) in both letter patterns
		}
		for v := 0; v < nv; v++ {
			d := reps(r.C, v)
			srv, err := socks5.New(&socks5.Config{Users: users(), Egress: egressConfig(r.Rules, d)})
			if err != nil {
				t.Fatal(err)
			}
			raw := request(r.Cmd, d, 80+v)
			act := srv.FindAction(context.Background(), egress.Input{Protocol: appctlpb.ProxyProtocol_SOCKS5_PROXY_PROTOCOL, Data: raw, Env: envOf(r.U)})
			out.Emit(map[string]any{"ev": "decide", "c": r.C, "u": r.U, "cmd": r.Cmd, "rules": r.Rules, "action": r.Action,
				"real": act.Action.String(), "variant": v, "dst": fmt.Sprintf("%d:%v%s", d.atyp, d.ip, d.name)})
		}
	})
}

// ---- effects ---------------------------------------------------------------

type userConn struct {
	net.Conn
	user string
}

func (u *userConn) UserName() string { return u.user }

type hostMap struct{}

func (hostMap) LookupIP(ctx context.Context, network, host string) ([]net.IP, error) {
	h := apicommon.NormalizeDomainName(host)
	switch h {
	case "localhost", "localhost4", "localhost.localdomain", "localhost4.localdomain4":
		return []net.IP{net.ParseIP("127.0.0.1")}, nil
	case "localhost6", "ip6-localhost", "ip6-loopback", "localhost6.localdomain6":
		return []net.IP{net.ParseIP("::1")}, nil
	}
	if ip := net.ParseIP(host); ip != nil {
		return []net.IP{ip}, nil
	}
	return nil, fmt.Errorf("no such host %q", host)
}

type effect struct {
	C   string `json:"c"`
	U   string `json:"u"`
	Cmd string `json:"cmd"`
	V   int    `json:"variant"`
}

var aliasOnce sync.Once
var aliasOK bool

func privateAlias() bool {
	aliasOnce.Do(func() {
		exec.Command("ip", "addr", "add", "10.99.0.1/32", "dev", "lo").Run()
		if out, err := exec.Command("ip", "-4", "addr", "show", "dev", "lo").Output(); err == nil && strings.Contains(string(out), "10.99.0.1") {
			aliasOK = true
		}
	})
	return aliasOK
}

// TestEffects runs CONNECT requests and UDP associations against a real server and observes what reached the stubs.
func TestEffects(t *testing.T) {
	out := vt.MustCreate(t, "VERIF_OUT")
	defer out.Close()
	hasAlias := privateAlias()
	defer exec.Command("ip", "addr", "del", "10.99.0.1/32", "dev", "lo").Run()
	// one TCP and one UDP stub on every local address
	tl, err := net.Listen("tcp", "[::]:0")
	if err != nil {
		tl, err = net.Listen("tcp", "0.0.0.0:0")
		if err != nil {
			t.Fatal(err)
		}
	}
	defer tl.Close()
	tport := tl.Addr().(*net.TCPAddr).Port
	var tcpHits atomic.Int64
	go func() {
		for {
			c, err := tl.Accept()
			if err != nil {
				return
			}
			tcpHits.Add(1)
			c.Close()
		}
	}()
	ul, err := net.ListenPacket("udp", fmt.Sprintf("[::]:%d", tport))
	if err != nil {
		ul, err = net.ListenPacket("udp", "0.0.0.0:0")
		if err != nil {
			t.Fatal(err)
		}
	}
	defer ul.Close()
	uport := ul.LocalAddr().(*net.UDPAddr).Port
	var udpHits atomic.Int64
	go func() {
		buf := make([]byte, 2048)
		for {
			n, from, err := ul.ReadFrom(buf)
			if err != nil {
				return
			}
			if n >= 4 && string(buf[:4]) == "C12:" {
				udpHits.Add(1)
				ul.WriteTo([]byte("pong"), from)
			}
		}
	}()
	vt.ReadLines(t, "VERIF_IN", func(line []byte) {
		var e effect
		if err := json.Unmarshal(line, &e); err != nil {
			t.Fatalf("bad effect: %v", err)
		}
		d := reps(e.C, e.V)
		if e.C == "priv10lo" || e.C == "priv10hi" || e.C == "mappedPriv" {
			// the only private address this sandbox can own
			if e.C == "mappedPriv" {
				d = dest{atyp: 4, ip: net.ParseIP("::ffff:10.99.0.1").To16()}
			} else {
				d = dest{atyp: 1, ip: net.ParseIP("10.99.0.1").To4()}
			}
		}
		reachable := hasAlias || !(strings.HasPrefix(e.C, "priv") || e.C == "mappedPriv")
		srv, err := socks5.New(&socks5.Config{Users: users(), Resolver: hostMap{}, HandshakeTimeout: 2 * time.Second,
			AuthOpts: socks5.Auth{ClientSideAuthentication: true}})
		if err != nil {
			t.Fatal(err)
		}
		cli, sc := net.Pipe()
		var conn net.Conn = sc
		switch e.U {
		case "anonymous":
		case "unregistered":
			conn = &userConn{Conn: sc, user: "ghost"}
		default:
			conn = &userConn{Conn: sc, user: e.U}
		}
		done := make(chan struct{})
		go func() { srv.ServeConn(conn); close(done) }()
		t0, u0 := tcpHits.Load(), udpHits.Load()
		rec := map[string]any{"ev": "effect", "c": e.C, "u": e.U, "cmd": e.Cmd, "variant": e.V, "reply": -1, "tcphit": false, "udphit": false,
			"reachable": reachable, "dst": fmt.Sprintf("%d:%v%s", d.atyp, d.ip, d.name)}
		if e.Cmd == "connect" {
			go cli.Write(request("connect", d, tport))
			cli.SetReadDeadline(time.Now().Add(3 * time.Second))
			rep := make([]byte, 4)
			if n, _ := io.ReadFull(cli, rep); n >= 2 {
				rec["reply"] = int(rep[1])
			}
			time.Sleep(30 * time.Millisecond)
			// a success reply means the destination was dialled; its accept goroutine may lag on a loaded machine
			for w := 0; w < 100 && rec["reply"] == 0 && tcpHits.Load() == t0; w++ {
				time.Sleep(20 * time.Millisecond)
			}
		} else {
			// the ASSOCIATE request itself names an innocuous destination (0.0.0.0:0 as clients do);
			// the class under test is the destination in the HEADER of the relayed datagram
			go cli.Write([]byte{5, 3, 0, 1, 0, 0, 0, 0, 0, 0})
			cli.SetReadDeadline(time.Now().Add(3 * time.Second))
			rep := make([]byte, 10)
			if n, _ := io.ReadFull(cli, rep); n >= 2 {
				rec["reply"] = int(rep[1])
			}
			if rec["reply"] == 0 {
				hdr := []byte{0, 0, 0, d.atyp}
				switch d.atyp {
				case 1, 4:
					hdr = append(hdr, d.ip...)
				case 3:
					hdr = append(hdr, byte(len(d.name)))
					hdr = append(hdr, d.name...)
				}
				hdr = append(hdr, byte(uport>>8), byte(uport))
				pkt := append(hdr, []byte("C12:ping")...)
				frame := []byte{0, 0, 0}
				binary.BigEndian.PutUint16(frame[1:], uint16(len(pkt)))
				frame = append(append(frame, pkt...), 0xff)
				cli.SetWriteDeadline(time.Now().Add(time.Second))
				cli.Write(frame)
				time.Sleep(80 * time.Millisecond)
			}
		}
		rec["tcphit"] = tcpHits.Load() > t0
		rec["udphit"] = udpHits.Load() > u0
		cli.Close()
		select {
		case <-done:
		case <-time.After(3 * time.Second):
		}
		out.Emit(rec)
	})
}
