#!/usr/bin/env python3
"""Extra (not a listed property): spec/Scheduler.tla - TLC exhaustive on 6 steps (DisabledIsForever, IdleImpliesDisabled,
IncOnlyWhenEnabled, NotDisabledWhilePendingUnlessForced), behaviours of 9 steps replayed on the real ScheduleController in virtual
time with every answer compared.  Usage: lib/extras/scheduler.py [seed]"""
import json, os, shutil, sys
sys.path.insert(0, os.path.join(os.path.dirname(os.path.abspath(__file__)), ".."))
import vlib

seed = int(sys.argv[1]) if len(sys.argv) > 1 else 1
r = vlib.tlc("Scheduler", "MC_Scheduler", timeout=900)
if r.violated or r.error:
    print("MODEL: %s %s" % (r.violated, r.error)); sys.exit(2)
print("Scheduler.tla exhaustive: %d distinct states, no violation" % r.distinct)
r = vlib.tlc("Scheduler", "MC_Scheduler_sim", simulate=2000, depth=12, seed=seed, workers=1, timeout=600)
beh = sorted({json.dumps(b) for _t, b in r.prints})
wd = vlib.scratch_dir("verif-extra-")
try:
    fin, fout = os.path.join(wd, "in.ndjson"), os.path.join(wd, "out.ndjson")
    open(fin, "w").write("\n".join(beh) + "\n")
    rc, log, _ = vlib.go_test("./extra/", "TestSchedulerBehaviours$", env={"VERIF_IN": fin, "VERIF_OUT": fout}, timeout=900)
    if rc != 0 or not os.path.exists(fout):
        print("INCONCLUSIVE driver failed\n" + log[-2000:]); sys.exit(2)
    lines = [json.loads(l) for l in open(fout)]
    for l in lines[:-1][:5]:
        print("DISAGREEMENT between Scheduler.tla and the real controller:", l)
    print("replayed %(behaviours)d behaviours, %(disagreements)d disagreements" % lines[-1])
    sys.exit(1 if lines[-1]["disagreements"] else 0)
finally:
    shutil.rmtree(wd, ignore_errors=True)
