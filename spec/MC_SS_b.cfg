CONSTANTS
  Sess = {1}
  NC = 2
  NS = 1
  Frag = TRUE
  HoldMutex = TRUE
  CloseC = TRUE
  Tampers = 0
  Recheck = TRUE
INIT Init
NEXT Next
INVARIANTS PrefixOK NoFramingLoss CloseNoTrunc NeverBroken
CHECK_DEADLOCK FALSE
