CONSTANTS
  UnitBits = 2
  ChunkUnits = 4
  MaxChunks = 2
  Rots = {0, 1, 3, 16, 48}
INIT Init
NEXT Next
CHECK_DEADLOCK FALSE
