INIT Init
NEXT Next
INVARIANTS WithinLimits Dump
CHECK_DEADLOCK FALSE
