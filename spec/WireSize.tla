------------------------------ MODULE WireSize ------------------------------
(***************************************************************************)
(* Size arithmetic of a UDP datagram / TCP segment (C14), on top of the    *)
(* transcription in Wire.tla:  fragment size per MTU and low-entropy mode, *)
(* encoded length, padding budgets (middle padding first, end padding with *)
(* the middle padding already placed), and the resulting datagram length   *)
(* for every segment kind.                                                 *)
(* TLC (a) checks Fits over the WHOLE configuration range as ASSUMEs and   *)
(* (b) evaluates the budget function on a boundary grid and exports the    *)
(* table; the harness compares every row with the real functions.          *)
(***************************************************************************)
EXTENDS Wire

MTUs == 1280..1500
Modes == 0..4
Unset == -1
Confs == {Unset, 0, 1, 128, 255}

\* maxPaddingSize(mtu, payloadLenOnWire, existing) for the packet transport
Budget(mtu, wireLen, existing) ==
  LET res == mtu - wireLen - PacketOverhead
  IN IF res <= existing THEN 0 ELSE Min(res - existing, MaxPadding)
\* with the configured maximum (unset = no extra limit)
MaxPad(mtu, wireLen, existing, conf) ==
  IF conf = Unset THEN Budget(mtu, wireLen, existing) ELSE Min(Budget(mtu, wireLen, existing), conf)

\* a data / ack datagram: nonce + meta + tag + pad1 + [body + tag] + pad2.  PacketOverhead counts both tags.
DataLen(wireLen, p1, p2) == PacketOverhead - (IF wireLen = 0 THEN TagLen ELSE 0) + p1 + wireLen + p2
\* a session datagram (open/close request/response) has no middle padding
SessionLen(payload, p2) == PacketOverhead - (IF payload = 0 THEN TagLen ELSE 0) + payload + p2

\* every plaintext fragment size a data segment can carry for (mtu, mode)
FragSizes(mtu, mode) == 1..UdpFragment(mtu, mode)

FitsData ==
  \A mtu \in MTUs, mode \in Modes :
    \A n \in {1, 2, UdpFragment(mtu, mode) - 1, UdpFragment(mtu, mode)} \cup
             {k \in FragSizes(mtu, mode) : (mtu - PacketOverhead - EncLen(k, mode)) \in {0, 1, 254, 255, 256, 300, 509, 510, 511}} :
      LET w == EncLen(n, mode) IN
      /\ w <= 65535
      /\ \A c1 \in Confs, c2 \in Confs :
           LET m1 == MaxPad(mtu, w, 0, c1) IN
           \A p1 \in {0, m1} :
             LET m2 == MaxPad(mtu, w, p1, c2) IN
             DataLen(w, p1, m2) <= mtu

FitsAck == \A mtu \in MTUs, c1 \in Confs, c2 \in Confs :
             LET m1 == MaxPad(mtu, 0, 0, c1) IN DataLen(0, m1, MaxPad(mtu, 0, m1, c2)) <= mtu

FitsSession == \A mtu \in MTUs, payload \in {0, 1, 512, 936, 937, 1023, 1024}, c2 \in Confs :
                 SessionLen(payload, MaxPad(mtu, payload, 0, c2)) <= mtu

FragLaw == \A mtu \in MTUs, mode \in Modes :
             /\ UdpFragment(mtu, mode) >= 1
             /\ EncLen(UdpFragment(mtu, mode), mode) + PacketOverhead <= mtu
             /\ (mode > 0 => EncLen(UdpFragment(mtu, mode), mode) % ChunkLen = 0)
StreamLaw == \A mode \in Modes : /\ StreamFragment(mode) <= MaxStreamFragment
                                 /\ EncLen(StreamFragment(mode), mode) <= 65535
                                 /\ (mode = 1 => StreamFragment(mode) = 32764)

ASSUME FitsData
ASSUME FitsAck
ASSUME FitsSession
ASSUME FragLaw
ASSUME StreamLaw

\* boundary grid exported for the comparison with maxPaddingSizeWithTrafficPattern / maxFragmentSize
GridMTU == {1280, 1281, 1350, 1366, 1367, 1399, 1400, 1499, 1500}
GridRes == {0, 1, 2, 100, 254, 255, 256, 257, 300, 400, 509, 510, 511, 700}
GridExisting == {0, 1, 100, 254, 255}
PadRows == { <<mtu, mtu - PacketOverhead - res, ex, c, MaxPad(mtu, mtu - PacketOverhead - res, ex, c)>> :
               mtu \in GridMTU, res \in GridRes, ex \in GridExisting, c \in Confs }
FragRows == { <<mtu, mode, UdpFragment(mtu, mode), StreamFragment(mode)>> : mtu \in MTUs, mode \in Modes }
EncRows == { <<nm[1], nm[2], EncLen(nm[1], nm[2])>> : nm \in { <<n, mode>> \in ({1, 2, 3, 4, 5, 6, 7, 8, 27, 28, 29, 1311, 1312, 32763, 32764, 32765, 32768} \X (1..4)) :
                                          n <= StreamFragment(mode) } }

ASSUME PrintT(<<"SIZE", ToJson([pad |-> PadRows, frag |-> FragRows, enc |-> EncRows])>>)
=============================================================================
