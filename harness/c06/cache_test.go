// Drivers binding spec/ReplayCache.tla to pkg/replay.
package c06

import (
	"encoding/json"
	"testing"
	"testing/synctest"
	"time"

	"github.com/enfein/mieru/v3/pkg/replay"
	"verifharness/vt"
)

const unit = 10 * time.Second

type step struct {
	Dt   int
	Item string
	Tag  string
	Res  bool
	Szc  int
	Szp  int
}

func (s *step) UnmarshalJSON(b []byte) error {
	var a []any
	if err := json.Unmarshal(b, &a); err != nil {
		return err
	}
	s.Dt = int(a[0].(float64))
	s.Item = a[1].(string)
	s.Tag = a[2].(string)
	s.Res = a[3].(bool)
	s.Szc = int(a[4].(float64))
	s.Szp = int(a[5].(float64))
	return nil
}

func tagOf(s string) string {
	if s == "E" {
		return replay.EmptyTag
	}
	return "10.0.0." + s + ":1000"
}

// TestReplayBehaviours replays TLC-generated behaviours (spec -> code): every
// return value and both generation sizes must equal the model's.
// Input line: {"cap":c,"interval":i,"steps":[[dt,item,tag,res,szc,szp],...]}
// Output: one line per behaviour that disagrees, carrying the REAL trace.
func TestReplayBehaviours(t *testing.T) {
	out := vt.MustCreate(t, "VERIF_OUT")
	defer out.Close()
	total, steps, bad := 0, 0, 0
	vt.ReadLines(t, "VERIF_IN", func(line []byte) {
		var beh struct {
			Cap      int    `json:"cap"`
			Interval int    `json:"interval"`
			Steps    []step `json:"steps"`
		}
		if err := json.Unmarshal(line, &beh); err != nil {
			t.Fatalf("bad behaviour %s: %v", line, err)
		}
		total++
		synctest.Test(t, func(t *testing.T) {
			c := replay.NewCache(beh.Cap, time.Duration(beh.Interval)*unit)
			real := make([][]any, 0, len(beh.Steps))
			mismatch := -1
			for k, s := range beh.Steps {
				time.Sleep(time.Duration(s.Dt) * unit)
				res := c.IsDuplicate([]byte(s.Item), tagOf(s.Tag))
				szc, szp := c.Sizes()
				real = append(real, []any{s.Dt, s.Item, s.Tag, res, szc, szp})
				steps++
				if mismatch < 0 && (res != s.Res || szc != s.Szc || szp != s.Szp) {
					mismatch = k
				}
			}
			if mismatch >= 0 {
				bad++
				out.Emit(map[string]any{"cap": beh.Cap, "interval": beh.Interval, "at": mismatch, "real": real, "model": beh.Steps})
			}
		})
	})
	out.Emit(map[string]any{"summary": true, "behaviours": total, "steps": steps, "mismatch": bad})
}

// TestRecordRandom records long random histories of the real cache at larger
// constants (code -> spec); TLC validates them against Trace_ReplayCache.
func TestRecordRandom(t *testing.T) {
	out := vt.MustCreate(t, "VERIF_OUT")
	defer out.Close()
	n := vt.EnvInt("VERIF_N", 50)
	length := vt.EnvInt("VERIF_LEN", 60)
	capacity := vt.EnvInt("VERIF_CAP", 3)
	interval := vt.EnvInt("VERIF_INTERVAL", 4)
	r := vt.Rand(6)
	items := []string{"a", "b", "c", "d", "e", "f"}
	tags := []string{"E", "A", "B", "C"}
	dts := []int{0, 0, 0, 1, 1, 2, 3, interval - 1, interval, interval + 1, 2 * interval, 2*interval + 1}
	for tr := 0; tr < n; tr++ {
		synctest.Test(t, func(t *testing.T) {
			c := replay.NewCache(capacity, time.Duration(interval)*unit)
			out.Emit(map[string]any{"ev": "new", "cap": capacity, "interval": interval, "dt": 0, "item": "", "tag": "", "res": false, "szc": 0, "szp": 0})
			// Bias toward few items so replays and rotations are frequent.
			nItems := 2 + r.Intn(len(items)-1)
			for k := 0; k < length; k++ {
				dt := dts[r.Intn(len(dts))]
				it := items[r.Intn(nItems)]
				tg := tags[r.Intn(len(tags))]
				time.Sleep(time.Duration(dt) * unit)
				res := c.IsDuplicate([]byte(it), tagOf(tg))
				szc, szp := c.Sizes()
				out.Emit(map[string]any{"ev": "call", "cap": capacity, "interval": interval, "dt": dt, "item": it, "tag": tg, "res": res, "szc": szc, "szp": szp})
			}
		})
	}
}
