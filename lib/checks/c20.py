"""C20 - configuration handling is total, lossless, and keeps server passwords hashed.

design spec   spec/ConfigStore.tla: a configuration = optional scalar fields + one collection keyed by name (client profiles /
              server users); Merge; TLC checks PatchLocal and idempotence on the cases it exports (two bases x every one- and
              two-field patch, client and server) and names the malformed-input classes
spec -> code  every case, concretised with adversarial values (names and passwords with @ : / ? # % & + = space non-ASCII, 64-byte
              names, IPv6 hosts, port ranges, egress/DNS/traffic-pattern bodies), is stored, patched through the real
              ApplyJSON*Config and loaded back, on the protobuf and the JSON file format; share links are exported and imported
              (both link forms); every malformed class is offered to every import function
code -> spec  TLC validates every record (Trace_ConfigStore: PatchLocal, NoCrash, Hashed, LinksRoundTrip, Total)
"""
import json
import os
import re
import shutil

import vlib
from vlib import Inconclusive

PROPS = ("PatchLocal", "NoCrash", "Hashed", "LinksRoundTrip", "Total")


def signature(inv, r):
    if inv in ("NoCrash", "Total") and r.get("ev") == "malformed":
        if r.get("class") in ("schemeOnly", "schemeSlash") and r.get("panic"):
            return "C20:short-mieru-link-panics"
        return "C20:%s:%s" % (inv, r.get("class"))
    return "C20:%s" % inv


def validate(ctx, path, wd, what):
    remaining = path
    for attempt in range(10):
        r = vlib.tlc("Trace_ConfigStore", workers=1, timeout=2400, env={"VERIF_TRACE": remaining}, keep_out=True, heap="12g")
        if r.violated in PROPS:
            m = re.findall(r"/\\ l = (\d+)", r.trace[-1] if r.trace else "")
            line = int(m[-1]) - 1 if m else 1
            cur = vlib.read_ndjson(remaining)
            bad = cur[line - 1]
            sig = signature(r.violated, bad)
            rp = ctx.save_replay("%s_%s_%d.json" % (what, r.violated, attempt), bad)
            ctx.report("%s: %s" % (r.violated, {k: v for k, v in bad.items() if k not in ("base", "want")}), rp, sig)
            rest = [x for x in cur[line:] if signature(r.violated, x) != sig or x.get("ev") != bad.get("ev")]
            if not rest or len(ctx.violations) >= 5:
                return
            remaining = os.path.join(wd, "%s.rest%d.ndjson" % (what, attempt))
            vlib.write_ndjson(remaining, rest)
            continue
        if r.violated or r.error or not r.finished:
            raise Inconclusive("Trace_ConfigStore: %s %s\n%s" % (r.violated, r.error, r.out[-1500:]))
        ctx.coverage["states"] += r.distinct
        ctx.coverage["traces_validated_against_impl"] += r.distinct - 1
        return


def run(ctx):
    ctx.level = "model_checking"
    ctx.coverage["rule"] = ("all (base, patch) cases exported by TLC x 2 file formats; link round trips; every malformed class x every "
                            "import function. distinct_nontrivial = cases whose patch sets at least one field + malformed inputs")
    ctx.assumptions += ["'all strings' is covered by classes with fixed adversarial representatives, not exhaustively",
                        "a panic inside the harness process is caught with recover() and reported as a crash"]
    wd = vlib.scratch_dir("verif-c20-")
    try:
        res = vlib.tlc("MC_ConfigStore", timeout=900, tags=("CASES",))
        if res.violated or res.error or not res.prints:
            raise Inconclusive("ConfigStore model: %s %s\n%s" % (res.violated, res.error, res.out[-1500:]))
        data = res.prints[0][1]
        cases = data["cases"]
        ctx.coverage["states"] += 1
        ctx.coverage["transitions"] += len(cases)
        ctx.coverage.setdefault("tlc_runs", []).append({"what": "ConfigStore PatchLocalSmall + %d cases, %d malformed classes" % (len(cases), len(data["malformed"])),
                                                       "wall_s": round(res.wall, 1)})
        cin, cout = os.path.join(wd, "cases.ndjson"), os.path.join(wd, "apply.ndjson")
        vlib.write_ndjson(cin, cases)
        rc, log, _ = vlib.go_test("./c20/", "TestApply$", env={"VERIF_IN": cin, "VERIF_OUT": cout}, timeout=2400)
        if rc != 0 or not os.path.exists(cout):
            raise Inconclusive("driver TestApply failed:\n" + log[-3000:])
        got = vlib.read_ndjson(cout)
        if len(got) != 2 * len(cases):
            raise Inconclusive("driver ran %d of %d cases" % (len(got), 2 * len(cases)))
        ctx.coverage["evaluations"] += len(got)
        ctx.coverage["distinct_nontrivial"] += len(got)
        ctx.sample({"kind": "apply record", "record": {k: v for k, v in got[len(got) // 2].items() if k != "want"}})
        validate(ctx, cout, wd, "apply")
        lout = os.path.join(wd, "links.ndjson")
        rc, log, _ = vlib.go_test("./c20/", "TestLinks$", env={"VERIF_OUT": lout}, timeout=1200)
        if rc != 0 or not os.path.exists(lout):
            raise Inconclusive("driver TestLinks failed (a crash outside recover?):\n" + log[-3000:])
        lg = vlib.read_ndjson(lout)
        seen = {r["class"] for r in lg if r["ev"] == "malformed"}
        missing = set(data["malformed"]) - seen
        if missing:
            raise Inconclusive("malformed classes not exercised: %s" % sorted(missing))
        ctx.coverage["evaluations"] += len(lg)
        ctx.coverage["distinct_nontrivial"] += len(lg)
        ctx.coverage["malformed_inputs"] = sum(1 for r in lg if r["ev"] == "malformed")
        ctx.sample({"kind": "malformed input record", "record": next(r for r in lg if r["ev"] == "malformed")})
        validate(ctx, lout, wd, "links")
        # a profile that passes validation can be started (first encrypted segment) without a crash; user names around the 64-byte limit
        sout = os.path.join(wd, "start.ndjson")
        rc, log, _ = vlib.go_test("./c20/", "TestStart$", env={"VERIF_OUT": sout}, timeout=600)
        if rc != 0 or not os.path.exists(sout):
            raise Inconclusive("driver TestStart failed:\n" + log[-3000:])
        sg = vlib.read_ndjson(sout)
        ctx.coverage["evaluations"] += len(sg)
        ctx.coverage["profiles_started"] = sum(1 for r in sg if r["valid"])
        validate(ctx, sout, wd, "start")
    finally:
        shutil.rmtree(wd, ignore_errors=True)


def replay(ctx, path):
    print(json.load(open(path)))
