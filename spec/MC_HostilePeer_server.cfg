CONSTANTS
  MaxUnits = 24
  Role = "server"
SPECIFICATION Spec
INVARIANTS Alive VictimUnaffected DumpHist
CHECK_DEADLOCK FALSE
