--------------------------- MODULE MC_UserDiscovery ---------------------------
EXTENDS UserDiscovery
AuthInv == AuthOK
CacheInv == CacheIndependent
ASSUME PrintT(<<"TABLE", ToJson(Table)>>)
=============================================================================
