-------------------------- MODULE Trace_Socks5Auth --------------------------
(* Validates negotiations PLAYED AGAINST THE REAL socks5.Server.  Each line: the  *)
(* abstract input, the concrete variant, what the server answered (selected        *)
(* method, sub-negotiation status) and whether the request that followed was        *)
(* served (proxy dialled / destination connected).                                  *)
EXTENDS Integers, Sequences, TLC, Json, IOUtils
CONSTANT PreferNoAuth
VARIABLES l, x
SA == INSTANCE Socks5Auth
Trace == ndJsonDeserialize(IOEnv.VERIF_TRACE)
Init == l = 1 /\ x = 0
Next == l <= Len(Trace) /\ l' = l + 1 /\ UNCHANGED x
Spec == Init /\ [][Next]_<<l, x>>
R == Trace[l - 1]
Seen == l > 1
I == [m |-> R.m, creds |-> R.creds, sup |-> R.sup, place |-> R.place]

\* C11 on what the real server did
GateReal == (Seen /\ R.creds > 0 /\ R.served) => (SA!PairOK(I) /\ R.sel = 2 /\ R.status = 0)
NoCredsReal == (Seen /\ R.creds = 0) => /\ (R.m.has00 => R.sel = 0 /\ R.served)
                                         /\ (~R.m.has00 => ~R.served)
                                         /\ R.sel # 2
\* conformance with the transcript automaton
Conforms == Seen => (R.sel = SA!Select(I) /\ R.status = SA!Status(I) /\ R.served = SA!Served(I))
TraceAccepted == TLCGet("stats").diameter - 1 = Len(Trace)
=============================================================================
