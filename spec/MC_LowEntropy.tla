--------------------------- MODULE MC_LowEntropy ---------------------------
(* Exhaustive proof of the codec algebra at reduced width (W = 8: 4 units of 2 bits per chunk). *)
EXTENDS LowEntropy

CONSTANTS MaxChunks, Rots

Units == [1..UnitBits -> Bit]
Words == [1..W -> Bit]
Halves(C) == {h \in [1..HalfW -> Bit] : Weight(h) * 2 = C * UnitBits}
Caps == {c \in 1..(ChunkUnits - 1) : (c * UnitBits) % 2 = 0 /\ c * 2 >= ChunkUnits}
Bodies(n) == [1..n -> Units]

RoundTrip ==
  \A C \in Caps : \A half \in Halves(C) : \A rot \in Rots : \A pad \in Bit :
    \A n \in 1..(MaxChunks * C) : \A body \in Bodies(n) :
      LET enc == Encode(body, C, half, rot, pad)
          dec == Decode(enc, n, C, half, rot)
      IN /\ Len(enc) = NChunks(n, C)                 \* length law: ceil(N/C) chunks of 8 units
         /\ dec.ok /\ dec.body = body

\* the decoder accepts a string only if it is what the encoder produces for the decoded body with one of the two polarities
Canonical ==
  \A C \in Caps : \A half \in Halves(C) : \A rot \in Rots :
    \A k \in 1..MaxChunks : \A enc \in [1..k -> Words] :
      \A n \in ((k - 1) * C + 1)..(k * C) :
        LET dec == Decode(enc, n, C, half, rot)
        IN dec.ok => (enc = Encode(dec.body, C, half, rot, 0) \/ enc = Encode(dec.body, C, half, rot, 1))

Rejects ==
  \A C \in Caps : \A rot \in Rots : \A body \in Bodies(C + 1) :
    /\ \A h \in [1..HalfW -> Bit] :                 \* wrong mask weight
         Weight(h) * 2 # C * UnitBits => ~Decode(Encode(body, C, CHOOSE g \in Halves(C) : TRUE, rot, 0), C + 1, C, h, rot).ok
    /\ \A half \in Halves(C) :
         LET enc == Encode(body, C, half, rot, 1) IN
         /\ ~Decode(enc, 2 * C + 1, C, half, rot).ok       \* inconsistent lengths
         /\ ~Decode(enc, C, C, half, rot).ok
         /\ ~Decode(enc, C + 1, C, half, 17).ok             \* invalid rotation code
         /\ ~Decode(<<enc[1], Encode(body, C, half, rot, 0)[2]>>, C + 1, C, half, rot).ok   \* mixed padding across chunks

ASSUME RoundTrip
ASSUME Canonical
ASSUME Rejects
VARIABLE x
Init == x = 0
Next == x' = x /\ FALSE
=============================================================================
