// Binds spec/LowEntropy.tla (evaluated by TLC at full width) to the real codec and bit routines.
package c17

import (
	"crypto/sha256"
	"encoding/binary"
	"encoding/json"
	"math/rand"
	"os"
	"testing"

	"github.com/enfein/mieru/v3/pkg/appctl/appctlpb"
	"github.com/enfein/mieru/v3/pkg/mathext"
	"github.com/enfein/mieru/v3/pkg/protocol"

	"verifharness/vt"
)

type bitop struct {
	X    []int `json:"x"`
	Mask []int `json:"mask"`
}
type encv struct {
	Body []int `json:"body"`
	Mode int   `json:"mode"`
	Half []int `json:"half"`
	Rot  int   `json:"rot"`
	Pad  int   `json:"pad"`
}
type decv struct {
	Enc  []int `json:"enc"`
	N    int   `json:"n"`
	Mode int   `json:"mode"`
	Half []int `json:"half"`
	Rot  int   `json:"rot"`
}
type vectors struct {
	Bitops []bitop `json:"bitops"`
	Encode []encv  `json:"encode"`
	Decode []decv  `json:"decode"`
}
type oracle struct {
	Bitops []struct {
		Pdep []int `json:"pdep"`
		Pext []int `json:"pext"`
	} `json:"bitops"`
	Encode [][]int `json:"encode"`
	Decode []struct {
		Ok   bool  `json:"ok"`
		Body []int `json:"body"`
	} `json:"decode"`
}

func word(b []int) uint64 {
	var v uint64
	for i, x := range b {
		if x == 1 {
			v |= 1 << uint(i)
		}
	}
	return v
}
func toBytes(a []int) []byte {
	o := make([]byte, len(a))
	for i, x := range a {
		o[i] = byte(x)
	}
	return o
}
func eq(a []byte, b []int) bool {
	if len(a) != len(b) {
		return false
	}
	for i := range a {
		if int(a[i]) != b[i] {
			return false
		}
	}
	return true
}

// TestVectors compares the real routines with what TLC computed from the specification.
func TestVectors(t *testing.T) {
	out := vt.MustCreate(t, "VERIF_OUT")
	defer out.Close()
	var v vectors
	var o oracle
	for path, dst := range map[string]any{os.Getenv("VERIF_IN"): &v, os.Getenv("VERIF_ORACLE"): &o} {
		b, err := os.ReadFile(path)
		if err != nil {
			t.Fatal(err)
		}
		if err := json.Unmarshal(b, dst); err != nil {
			t.Fatal(err)
		}
	}
	n, bad := 0, 0
	for i, b := range v.Bitops {
		x, m := word(b.X), word(b.Mask)
		pd, pe := mathext.PDEP(x, m), mathext.PEXT(x, m)
		n += 2
		if pd != word(o.Bitops[i].Pdep) || pe != word(o.Bitops[i].Pext) {
			bad++
			out.Emit(map[string]any{"kind": "bitops", "x": x, "mask": m, "pdep": pd, "pext": pe, "mpdep": word(o.Bitops[i].Pdep), "mpext": word(o.Bitops[i].Pext)})
		}
	}
	for i, e := range v.Encode {
		got, err := protocol.VerifEncodeLowEntropy(toBytes(e.Body), appctlpb.LowEntropyMode(e.Mode), uint32(word(e.Half)),
			appctlpb.LowEntropyMaskRotation(e.Rot), uint8(e.Pad))
		n++
		if err != nil || !eq(got, o.Encode[i]) {
			bad++
			out.Emit(map[string]any{"kind": "encode", "index": i, "vec": e, "real": got, "model": o.Encode[i], "err": errs(err)})
			continue
		}
		// round trip through the real decoder and the length law
		dec, err := protocol.VerifDecodeLowEntropy(got, len(e.Body), appctlpb.LowEntropyMode(e.Mode), uint32(word(e.Half)), appctlpb.LowEntropyMaskRotation(e.Rot))
		c := e.Mode + 3
		n++
		if err != nil || !eq(dec, e.Body) || len(got) != (len(e.Body)+c-1)/c*8 {
			bad++
			out.Emit(map[string]any{"kind": "roundtrip", "index": i, "vec": e, "real": dec, "err": errs(err)})
		}
	}
	for i, d := range v.Decode {
		var half uint32
		if len(d.Half) == 32 {
			half = uint32(word(d.Half))
		}
		got, err := protocol.VerifDecodeLowEntropy(toBytes(d.Enc), d.N, appctlpb.LowEntropyMode(d.Mode), half, appctlpb.LowEntropyMaskRotation(d.Rot))
		n++
		ok := err == nil
		if ok != o.Decode[i].Ok || (ok && !eq(got, o.Decode[i].Body)) {
			bad++
			out.Emit(map[string]any{"kind": "decode", "index": i, "vec": d, "real_ok": ok, "model_ok": o.Decode[i].Ok, "real": got, "err": errs(err)})
		}
	}
	out.Emit(map[string]any{"summary": true, "evaluations": n, "mismatch": bad, "padbit": protocol.VerifLowEntropyPaddingBit()})
}

func errs(err error) string {
	if err == nil {
		return ""
	}
	return err.Error()
}

// TestBitDigest evaluates PDEP/PEXT on deterministic structured and random pairs and emits one digest per group:
// the check runs it twice (hardware path; GODEBUG=cpu.bmi2=off = portable path) and compares the digests.
func TestBitDigest(t *testing.T) {
	out := vt.MustCreate(t, "VERIF_OUT")
	defer out.Close()
	n := vt.EnvInt("VERIF_N", 200000)
	r := rand.New(rand.NewSource(vt.Seed()))
	group := func(name string, gen func(i int) (uint64, uint64), cnt int) {
		h := sha256.New()
		var buf [16]byte
		var firstX, firstM, firstPd, firstPe uint64
		for i := 0; i < cnt; i++ {
			x, m := gen(i)
			pd, pe := mathext.PDEP(x, m), mathext.PEXT(x, m)
			binary.LittleEndian.PutUint64(buf[:8], pd)
			binary.LittleEndian.PutUint64(buf[8:], pe)
			h.Write(buf[:])
			if i == cnt/2 {
				firstX, firstM, firstPd, firstPe = x, m, pd, pe
			}
		}
		s := h.Sum(nil)
		out.Emit(map[string]any{"group": name, "count": cnt, "digest": binary.BigEndian.Uint64(s[:8]) >> 1,
			"x": firstX >> 1, "mask": firstM >> 1, "pdep": firstPd >> 1, "pext": firstPe >> 1})
	}
	group("random", func(i int) (uint64, uint64) { return r.Uint64(), r.Uint64() }, n)
	group("single-run masks", func(i int) (uint64, uint64) {
		w, k := 1+i%64, (i/64)%64
		m := (^uint64(0) >> uint(64-w)) << uint(k)
		return r.Uint64() | 1<<uint(63-i%3), m
	}, n/4)
	group("repeated half masks", func(i int) (uint64, uint64) {
		h := uint64(r.Uint32())
		return r.Uint64(), h<<32 | h
	}, n/4)
	group("sparse and dense", func(i int) (uint64, uint64) {
		if i%2 == 0 {
			return ^uint64(0), uint64(1)<<uint(i%64) | uint64(1)<<uint((i/64)%64)
		}
		return r.Uint64(), ^(uint64(1)<<uint(i%64) | uint64(1)<<uint((i/64)%64))
	}, n/4)
	group("extremes", func(i int) (uint64, uint64) {
		xs := []uint64{0, 1, ^uint64(0), 1 << 63, 0x5555555555555555, 0xaaaaaaaaaaaaaaaa, 0x0f0f0f0f0f0f0f0f}
		return xs[i%len(xs)], xs[(i/len(xs))%len(xs)]
	}, 49)
}
