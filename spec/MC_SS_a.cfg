CONSTANTS
  Sess = {1, 2}
  NC = 1
  NS = 1
  Frag = TRUE
  HoldMutex = TRUE
  CloseC = TRUE
  Tampers = 0
  Recheck = TRUE
INIT Init
NEXT Next
INVARIANTS PrefixOK NoFramingLoss CloseNoTrunc NeverBroken
CHECK_DEADLOCK FALSE
