------------------------- MODULE MC_SessionPacket -------------------------
EXTENDS SessionPacket, Json, IOUtils

DumpMode == IF "VERIF_DUMP" \in DOMAIN IOEnv THEN IOEnv.VERIF_DUMP ELSE "none"

\* Every distinct fault schedule under which the model completes becomes a
\* fate table replayed on the real muxes (spec -> code).
Finished == \/ Done
            \/ (CloseC /\ st["C"] = "closed" /\ net = {} /\ eof["S"] # "")
DumpFates == (DumpMode = "fates" /\ Finished /\ fates # {})
               => PrintT(<<"BEH", ToJson([fates |-> fates, eofS |-> eof["S"], rqS |-> Len(rq["S"])])>>)

\* ghost variables do not distinguish states for the safety checks
View == <<st, appW, nextSend, sendQ, sendBuf, nextRecv, recvBuf, rq, appR, ackDue, net, drops, dups,
          closeSeq, closeSent, eof, everRx>>
=============================================================================
