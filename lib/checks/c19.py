"""C19 - traffic accounting is conserved; quotas bind exactly the user who exceeded them.

design specs  spec/Counter.tla (history, operation-count trigger, the eight roll-up passes as coded, parametric units):
              TLC checks Conserved, Ordered, WindowBounded, NoFuture and RollUpKeepsTotal exhaustively at scaled units;
              spec/Quota.tla: admission around the MiB boundaries (Binds / Spares) for users with and without quotas
code -> spec  histories recorded from a real time-series counter in virtual time (bursts within a millisecond, gaps up to
              8 days, roll-ups forced at chosen operations, exported snapshots re-examined after later roll-ups, query
              windows) are validated by TLC at the REAL constants: property invariants on what the counter exported, and
              exact conformance of the exported history with the specification's
spec -> code  every Quota.tla case (allowance x traffic class x user kind) on real client+server muxes, TCP and UDP:
              echoed bytes, bytes relayed to the server application; and refusals raced, in real time, against a server
              application that is already reading the new session while the server's log sink is slow
"""
import json
import os
import re
import shutil

import vlib
from vlib import Inconclusive

PROPS = ("Conserved", "Ordered", "WindowsOK", "SnapshotStable", "QuotaBinds", "QuotaSpares", "CountedOnce")


def validate(ctx, path, wd, what, cfg="Trace_Counter", props=PROPS, drift_only=False):
    remaining = path
    for attempt in range(8):
        r = vlib.tlc("Trace_Counter", cfg, workers=1, timeout=2400, env={"VERIF_TRACE": remaining}, keep_out=True, heap="12g")
        if r.violated in props:
            m = re.findall(r"/\\ l = (\d+)", r.trace[-1] if r.trace else "")
            line = int(m[-1]) - 1 if m else 1
            cur = vlib.read_ndjson(remaining)
            bad = cur[line - 1]
            if drift_only:
                ctx.drift.append("counter history deviates from Counter.tla at record %d of %s" % (line, what))
                return
            rp = ctx.save_replay("%s_%s_%d.json" % (what, r.violated, attempt), {"record": bad, "trace_prefix": cur[max(0, line - 6):line]})
            sig = "C19:%s" % r.violated
            if r.violated == "QuotaBinds" and bad.get("relayed", 0) > 0 and bad.get("echoed", 0) == 0:
                sig = "C19:quota-refused-session-still-delivers-first-payload"
            short = {k: v for k, v in bad.items() if k not in ("hist", "wins")}
            ctx.report("%s: %s" % (r.violated, short), rp, sig)
            # continue after the enclosing trace ("new" record) / next record
            rest = cur[line:]
            if bad.get("ev") == "add":
                nxt = next((i for i, x in enumerate(rest) if x.get("ev") == "new"), None)
                rest = rest[nxt:] if nxt is not None else []
            if not rest or len(ctx.violations) >= 4:
                return
            remaining = os.path.join(wd, "%s.rest%d.ndjson" % (what, attempt))
            vlib.write_ndjson(remaining, rest)
            continue
        if r.violated or r.error or not r.finished:
            raise Inconclusive("Trace_Counter: %s %s\n%s" % (r.violated, r.error, r.out[-1500:]))
        if not drift_only:
            ctx.coverage["states"] += r.distinct
            ctx.coverage["traces_validated_against_impl"] += sum(1 for x in vlib.read_ndjson(remaining) if x.get("ev") in ("new", "quota"))
        return


def run(ctx):
    ctx.level = "model_checking"
    ctx.coverage["rule"] = ("counter: random operation histories over boundary gaps (0 ms .. 8 days) with forced roll-ups, validated "
                            "at the real constants; quota: every (user kind, allowance, traffic class) x transport. "
                            "distinct_nontrivial = recorded operations followed by a roll-up + quota cases")
    ctx.assumptions += ["virtual time (testing/synctest); relative times stay below 2^31 ms (TLC integers)",
                        "per-session byte counting is observed through the user's counters, which are process-global"]
    wd = vlib.scratch_dir("verif-c19-")
    try:
        cfg = "MC_Counter" if not ctx.thorough() else "MC_Counter_big"
        res = vlib.tlc("MC_Counter", cfg, timeout=2400, heap="16g")
        if res.violated:
            raise Inconclusive("design model violates %s (model-only; fix the spec)" % res.violated)
        ctx.add_tlc(res, "Counter exhaustive at scaled units (%s)" % cfg)
        q = vlib.tlc("Quota", timeout=300, tags=("TABLE",))
        if q.error or q.violated or not q.prints:
            raise Inconclusive("Quota model: %s %s" % (q.violated, q.error))
        qtable = q.prints[0][1]
        ctx.coverage["transitions"] += len(qtable)
        cout = os.path.join(wd, "counter.ndjson")
        rc, log, _ = vlib.go_test("./c19/", "TestCounterTraces$", env={"VERIF_OUT": cout, "VERIF_SEED": ctx.seed,
                                                                        "VERIF_N": 60 if not ctx.thorough() else 800, "VERIF_LEN": 30}, timeout=2400)
        if rc != 0 or not os.path.exists(cout):
            raise Inconclusive("driver TestCounterTraces failed:\n" + log[-3000:])
        got = vlib.read_ndjson(cout)
        ctx.coverage["evaluations"] += len(got)
        ctx.coverage["distinct_nontrivial"] += sum(1 for r in got if r.get("rolled"))
        ex = next((r for r in got if r.get("rolled") and len(r["hist"]) > 3), got[-1])
        ctx.sample({"kind": "counter operation recorded from the real counter", "record": {k: v for k, v in ex.items() if k != "wins"}})
        validate(ctx, cout, wd, "counter")
        validate(ctx, cout, wd, "counter-conformance", cfg="Trace_Counter_conf", props=("Conforms",), drift_only=True)
        qin, qout = os.path.join(wd, "quota.in"), os.path.join(wd, "quota.ndjson")
        vlib.write_ndjson(qin, qtable)
        rc, log, _ = vlib.go_test("./c19/", "TestQuota$", env={"VERIF_IN": qin, "VERIF_OUT": qout, "VERIF_SEED": ctx.seed}, timeout=2400)
        if rc != 0 or not os.path.exists(qout):
            raise Inconclusive("driver TestQuota failed:\n" + log[-3000:])
        qg = vlib.read_ndjson(qout)
        if len(qg) < 2 * len(qtable):
            raise Inconclusive("quota driver ran %d of %d cases" % (len(qg), 2 * len(qtable)))
        ctx.coverage["evaluations"] += len(qg)
        ctx.coverage["distinct_nontrivial"] += len(qg)
        ctx.sample({"kind": "quota case on real muxes", "record": qg[5]})
        validate(ctx, qout, wd, "quota")
        # the refusal races with an application already blocked in Read on the new session (real time, slow log sink)
        rout = os.path.join(wd, "quotarace.ndjson")
        rc, log, _ = vlib.go_test("./c19/", "TestQuotaRace$", env={"VERIF_OUT": rout, "VERIF_SEED": ctx.seed,
                                                                   "VERIF_N": 25 if not ctx.thorough() else 200}, timeout=1200)
        if rc != 0 or not os.path.exists(rout):
            raise Inconclusive("driver TestQuotaRace failed:\n" + log[-3000:])
        rg = vlib.read_ndjson(rout)
        if not rg:
            raise Inconclusive("quota race driver recorded nothing")
        ctx.coverage["evaluations"] += len(rg)
        ctx.coverage["quota_race_trials"] = len(rg)
        validate(ctx, rout, wd, "quotarace", props=("QuotaBinds",))
        # a user's first sessions arrive concurrently: the counter is created while it is first being used
        fout = os.path.join(wd, "first.ndjson")
        rc, log, _ = vlib.go_test("./c19/", "TestConcurrentFirstSessions$", env={"VERIF_OUT": fout, "VERIF_SEED": ctx.seed}, timeout=900)
        if rc != 0 or not os.path.exists(fout):
            raise Inconclusive("driver TestConcurrentFirstSessions failed:\n" + log[-3000:])
        fg = vlib.read_ndjson(fout)
        ctx.coverage["evaluations"] += len(fg)
        ctx.coverage["concurrent_first_session_trials"] = len(fg)

        def dfirst(rec, inv):
            return ("%s: %d concurrent first sessions of a new user: the application received %d bytes, the user's upload counter says %d"
                    % (inv, rec["sessions"], rec["delivered"], rec["counted"]), "C19:%s" % inv)
        vlib.validate_records(ctx, "Trace_FirstSessions", "Trace_FirstSessions", fout, ("FirstSessionsCounted",), dfirst, wd)
    finally:
        shutil.rmtree(wd, ignore_errors=True)


def replay(ctx, path):
    print(json.load(open(path)))
