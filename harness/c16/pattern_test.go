// Binds spec/TrafficPattern.tla to apis/trafficpattern.
package c16

import (
	"encoding/json"
	"testing"

	"github.com/enfein/mieru/v3/apis/trafficpattern"
	"github.com/enfein/mieru/v3/pkg/appctl/appctlpb"
	"google.golang.org/protobuf/proto"

	"verifharness/vt"
)

type orig struct {
	TcpEnable int `json:"tcpEnable"`
	Sleep     int `json:"sleep"`
	Type      int `json:"type"`
	Apply     int `json:"apply"`
	Min       int `json:"min"`
	Max       int `json:"max"`
	Mid       int `json:"mid"`
	End       int `json:"end"`
	Mode      int `json:"mode"`
	Rot       int `json:"rot"`
	Unlock    int `json:"unlock"`
	Seed      int `json:"seed"` // -1 = no seed
}

const u = -1

func build(o orig) *appctlpb.TrafficPattern {
	p := &appctlpb.TrafficPattern{}
	if o.Seed != u {
		p.Seed = proto.Int32(int32(o.Seed))
	}
	if o.Unlock == 1 {
		p.UnlockAll = proto.Bool(true)
	}
	if o.TcpEnable != u || o.Sleep != u {
		p.TcpFragment = &appctlpb.TCPFragment{}
		if o.TcpEnable != u {
			p.TcpFragment.Enable = proto.Bool(o.TcpEnable == 1)
		}
		if o.Sleep != u {
			p.TcpFragment.MaxSleepMs = proto.Int32(int32(o.Sleep))
		}
	}
	if o.Type != u || o.Apply != u || o.Min != u || o.Max != u {
		p.Nonce = &appctlpb.NoncePattern{}
		if o.Type != u {
			p.Nonce.Type = appctlpb.NonceType(o.Type).Enum()
			if o.Type == 3 {
				p.Nonce.CustomHexStrings = []string{"00010203", "a1a2a3a4a5a6a7a8a9aaabac"}
			}
		}
		if o.Apply != u {
			p.Nonce.ApplyToAllUDPPacket = proto.Bool(o.Apply == 1)
		}
		if o.Min != u {
			p.Nonce.MinLen = proto.Int32(int32(o.Min))
		}
		if o.Max != u {
			p.Nonce.MaxLen = proto.Int32(int32(o.Max))
		}
	}
	if o.Mid != u || o.End != u {
		p.Padding = &appctlpb.PaddingPattern{}
		if o.Mid != u {
			p.Padding.MaxMiddlePaddingLen = proto.Int32(int32(o.Mid))
		}
		if o.End != u {
			p.Padding.MaxEndPaddingLen = proto.Int32(int32(o.End))
		}
	}
	if o.Mode != u || o.Rot != u {
		p.LowEntropy = &appctlpb.LowEntropyPattern{}
		if o.Mode != u {
			p.LowEntropy.Mode = appctlpb.LowEntropyMode(o.Mode).Enum()
		}
		if o.Rot != u {
			p.LowEntropy.MaskRotation = appctlpb.LowEntropyMaskRotation(o.Rot).Enum()
		}
	}
	return p
}

func b2i(b *bool) int {
	if b == nil {
		return u
	}
	if *b {
		return 1
	}
	return 0
}

func i2i(v *int32) int {
	if v == nil {
		return u
	}
	return int(*v)
}

func flat(p *appctlpb.TrafficPattern) orig {
	o := orig{u, u, u, u, u, u, u, u, u, u, 0, u}
	if p == nil {
		return o
	}
	if p.UnlockAll != nil && *p.UnlockAll {
		o.Unlock = 1
	}
	if p.Seed != nil {
		o.Seed = int(*p.Seed)
	}
	if f := p.TcpFragment; f != nil {
		o.TcpEnable, o.Sleep = b2i(f.Enable), i2i(f.MaxSleepMs)
	}
	if n := p.Nonce; n != nil {
		if n.Type != nil {
			o.Type = int(*n.Type)
		}
		o.Apply, o.Min, o.Max = b2i(n.ApplyToAllUDPPacket), i2i(n.MinLen), i2i(n.MaxLen)
	}
	if d := p.Padding; d != nil {
		o.Mid, o.End = i2i(d.MaxMiddlePaddingLen), i2i(d.MaxEndPaddingLen)
	}
	if l := p.LowEntropy; l != nil {
		if l.Mode != nil {
			o.Mode = int(*l.Mode)
		}
		if l.MaskRotation != nil {
			o.Rot = int(*l.MaskRotation)
		}
	}
	return o
}

// TestConfigs feeds every original of VERIF_IN to the real NewConfig and records what came back.
func TestConfigs(t *testing.T) {
	out := vt.MustCreate(t, "VERIF_OUT")
	defer out.Close()
	vt.ReadLines(t, "VERIF_IN", func(line []byte) {
		var o orig
		if err := json.Unmarshal(line, &o); err != nil {
			t.Fatalf("bad original %s: %v", line, err)
		}
		pb := build(o)
		rec := map[string]any{"ev": "cfg", "o": o, "err": "", "valid": false, "det": false, "rt": false, "kept": false, "e": flat(nil)}
		cfg, err := trafficpattern.NewConfig(pb)
		if err != nil {
			rec["err"] = "NewConfig: " + err.Error()
			out.Emit(rec)
			return
		}
		eff := cfg.Effective()
		rec["e"] = flat(eff)
		rec["valid"] = trafficpattern.Validate(eff) == nil
		cfg2, err2 := trafficpattern.NewConfig(build(o))
		rec["det"] = err2 == nil && proto.Equal(cfg2.Effective(), eff)
		dec, derr := trafficpattern.Decode(trafficpattern.Encode(eff))
		rec["rt"] = derr == nil && proto.Equal(dec, eff)
		dec2, derr2 := trafficpattern.Decode(trafficpattern.Encode(pb))
		rec["rt"] = rec["rt"].(bool) && derr2 == nil && proto.Equal(dec2, pb)
		// the original message itself must not have been modified by the generation
		rec["kept"] = proto.Equal(cfg.Original(), build(o))
		// custom hex strings must survive
		if o.Type == 3 && len(eff.GetNonce().GetCustomHexStrings()) != 2 {
			rec["kept"] = false
		}
		out.Emit(rec)
	})
}
