----------------------------- MODULE HostilePeer -----------------------------
(***************************************************************************)
(* C10: a peer that holds a valid credential (or none) and sends segments  *)
(* whose fields are arbitrary, inconsistent or hostile.  The specification *)
(* is the input language - a unit is a valid segment in which some fields  *)
(* lie and whose tail may be damaged - together with the contract: the     *)
(* process stays alive, sessions of OTHER users keep working, the hostile  *)
(* peer can lose only what is its own.                                     *)
(* Field classes are the boundary values of each metadata field of         *)
(* docs/protocol.md (Wire.tla) relative to the live state: the attacker's  *)
(* own session, a closed session of its own, the victim's session.         *)
(***************************************************************************)
EXTENDS Integers, Sequences, FiniteSets, TLC, Json, SequencesExt, IOUtils

CONSTANTS MaxUnits, Role      \* Role = "server": the real endpoint is a server, hostile units are client-to-server; "client": the reverse

Types == {"open", "openResp", "closeReq", "closeResp", "dataC2S", "dataS2C", "ackC2S", "ackS2C", "leC2S", "leS2C",
          "undef0", "undef1", "undefMid", "undef255"}
SidClass == {"zero", "own", "ownClosed", "victim", "unknown", "max"}
SeqClass == {"zero", "next", "same", "far", "max"}
AckClass == {"zero", "cur", "far", "max"}
WinClass == {"zero", "one", "max"}
FragClass == {"zero", "one", "max"}
LenClass == {"exact", "fieldZero", "fieldMinus", "fieldPlus", "fieldMax", "noBody", "bodyCut", "bodyExtra"}
PadClass == {"none", "small", "max", "lieMore", "lieLess"}
BodyClass == {"auth", "corrupt", "empty"}
LEClass == {"valid", "badMode", "zeroMask", "fullMask", "badRot", "extractZero", "extractHuge"}
TsClass == {"now", "old", "future", "zero"}
FromClass == {"ownAddr", "otherAddr"}
StatusClass == {"zero", "quota", "max"}

Fields == {"type", "sid", "seq", "ack", "win", "frag", "len", "pad", "body", "le", "ts", "from", "status"}
Class == [type |-> Types, sid |-> SidClass, seq |-> SeqClass, ack |-> AckClass, win |-> WinClass, frag |-> FragClass, len |-> LenClass,
          pad |-> PadClass, body |-> BodyClass, le |-> LEClass, ts |-> TsClass, from |-> FromClass, status |-> StatusClass]
IsUnit(u) == DOMAIN u = Fields /\ \A f \in Fields : u[f] \in Class[f]

HonestTypes == IF Role = "server" THEN {"open", "closeReq", "closeResp", "dataC2S", "ackC2S", "leC2S"}
               ELSE {"openResp", "closeReq", "closeResp", "dataS2C", "ackS2C", "leS2C"}
\* the units explored: an honest unit in which one to three fields are replaced by arbitrary members of their class
\* (the full product has ~10^9 members; TLC draws from it in simulation mode)
Baseline(t) == [type |-> t, sid |-> "own", seq |-> "next", ack |-> "cur", win |-> "max", frag |-> "zero", len |-> "exact",
                pad |-> "small", body |-> "auth", le |-> "valid", ts |-> "now", from |-> "ownAddr", status |-> "zero"]
\* draws come from a linear congruential generator carried in the state (TLC's own RandomElement is re-seeded per
\* evaluation under a fixed -seed, which makes every draw the same)
LCG(r) == (r * 75 + 74) % 65537     \* TLC integers are 32-bit
RECURSIVE LCGn(_, _)
LCGn(r, n) == IF n = 0 THEN r ELSE LCGn(LCG(r), n - 1)
Pick(S, r) == LET q == SetToSeq(S) IN q[((r \div 7) % Len(q)) + 1]
FieldSeq == SetToSeq(Fields)
Mutant(r) == LET b == Baseline(Pick(HonestTypes, LCGn(r, 1)))
                 k == ((LCGn(r, 2) \div 11) % 3) + 1
                 dev(jj) == ((LCGn(r, 2 + jj) \div 13) % Len(FieldSeq)) < k
             IN [f \in Fields |-> LET i == CHOOSE j \in 1..Len(FieldSeq) : FieldSeq[j] = f
                                   IN IF dev(i) THEN Pick(Class[f], LCGn(r, 20 + i)) ELSE b[f]]

\* a unit is interesting only if it differs from what an honest peer could send
Honest(u) == /\ u.sid = "own" /\ u.seq \in {"next"} /\ u.len = "exact" /\ u.pad \in {"none", "small", "max"} /\ u.body \in {"auth", "empty"}
             /\ u.le = "valid" /\ u.ts = "now" /\ u.from = "ownAddr"
             /\ u.type \in HonestTypes

VARIABLES own,      \* the hostile peer's own session: "none" | "live" | "closed"
          victim,   \* another user's session on the same endpoint: "live" | "broken"
          alive,    \* the process
          hist,     \* units sent so far
          rng       \* generator state
vars == <<own, victim, alive, hist, rng>>

Seed0 == IF "VERIF_SEED" \in DOMAIN IOEnv THEN atoi(IOEnv.VERIF_SEED) ELSE 1
Init == own = "none" /\ victim = "live" /\ alive = TRUE /\ hist = <<>> /\ rng \in 1..65536

\* the hostile peer opens (or re-opens) a session of its own in the honest way
OpenOwn == /\ own # "live" /\ Len(hist) < MaxUnits
           /\ (own = "none" \/ rng % 4 = 0)
           /\ own' = "live" /\ hist' = Append(hist, [op |-> "open"])
           /\ rng' = LCG(rng)
           /\ UNCHANGED <<victim, alive>>
CloseOwn == /\ own = "live" /\ Len(hist) < MaxUnits
            /\ rng % 8 = 1
            /\ own' = "closed" /\ hist' = Append(hist, [op |-> "close"])
            /\ rng' = LCG(rng)
            /\ UNCHANGED <<victim, alive>>
\* a hostile unit: whatever it is, only the sender's own session may suffer
Hostile(u) == /\ Len(hist) < MaxUnits
              /\ IsUnit(u) /\ ~Honest(u)
              /\ (u.sid = "own" => own = "live") /\ (u.sid = "ownClosed" => own = "closed")
              /\ own' \in {own, IF own = "live" THEN "closed" ELSE own}
              /\ hist' = Append(hist, [op |-> "unit", u |-> u])
              /\ rng' = LCGn(rng, 40)
              /\ UNCHANGED <<victim, alive>>
\* a draw that is honest or not applicable in this state is skipped
Skip == LET u == Mutant(rng) IN Len(hist) < MaxUnits /\ (Honest(u) \/ (u.sid = "own" /\ own # "live") \/ (u.sid = "ownClosed" /\ own # "closed")) /\ rng' = LCGn(rng, 40) /\ UNCHANGED <<own, victim, alive, hist>>
Next == OpenOwn \/ CloseOwn \/ (\E u \in {Mutant(rng)} : Hostile(u)) \/ Skip
Spec == Init /\ [][Next]_vars

\* C10
Alive == alive
VictimUnaffected == victim = "live"
DumpHist == (Len(hist) = MaxUnits) => PrintT(<<"BEH", ToJson(hist)>>)
=============================================================================
