CONSTANTS
  MinClamp = TRUE
SPECIFICATION Spec
INVARIANTS Constructed ExplicitKept ImplicitInRange EffectiveValid Deterministic SurvivesEncoding
POSTCONDITION TraceAccepted
CHECK_DEADLOCK FALSE
