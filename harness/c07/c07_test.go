// Binds spec/UserDiscovery.tla to the real serveruser.Registry: every row exported by TLC (registered set, shared credential,
// mandatory hint, source-cache contents, credential class and hint-collision class of the first segment) is concretised - the
// colliding pair of user names is found by a birthday search - and presented to a real Registry; a second family of rows has the
// cache warmed in a generation that a reload then replaces (incl. a reload to no users at all).
package c07

import (
	"crypto/rand"
	"encoding/binary"
	"encoding/hex"
	"encoding/json"
	"fmt"
	"io"
	"net"
	"os"
	"sync"
	"sync/atomic"
	"testing"
	"time"

	"github.com/enfein/mieru/v3/pkg/appctl/appctlpb"
	"github.com/enfein/mieru/v3/pkg/protocol/serveruser"
	"google.golang.org/protobuf/proto"

	"verifharness/refcodec"
)

type row struct {
	Shared    bool     `json:"shared"`
	Reg       []string `json:"reg"`
	Mandatory bool     `json:"mandatory"`
	Cache     []string `json:"cache"`
	Cred      string   `json:"cred"`
	Hint      []string `json:"hint"`
	Prev      []string `json:"prev"`     // non-nil: the cache was warmed while Prev was the registered set; Reg was loaded afterwards
	Reloaded  bool     `json:"reloaded"` // derived: Prev != nil
	Seam      bool     `json:"seam"`     // the reload completes INSIDE the discovery of the probed segment (after its first attempt on the old generation)
	User      string   `json:"user"`
	Cold      string   `json:"cold"`
	Note      string   `json:"note"`
}

var (
	names   = map[string]string{} // model name -> real name
	back    = map[string]string{}
	prefixC = make([]byte, 16) // nonce prefix under which a and b collide
	creds   = map[string][]byte{}
)

func hint4(name string, prefix []byte) uint32 {
	n := make([]byte, 24)
	copy(n, prefix)
	return binary.BigEndian.Uint32(refcodec.Hint(name, n))
}

func setup(t *testing.T) {
	if len(names) > 0 {
		return
	}
	copy(prefixC, []byte("verif-c07-prefix"))
	seen := map[uint32]string{}
	for i := 0; ; i++ {
		n := fmt.Sprintf("user%07d", i)
		h := hint4(n, prefixC)
		if o, ok := seen[h]; ok {
			a, b := o, n
			if a > b {
				a, b = b, a
			}
			names["a"], names["b"] = a, b
			break
		}
		seen[h] = n
		if i > 3000000 {
			t.Fatal("no colliding pair of names found")
		}
	}
	names["c"] = "zz-carol"
	for k, v := range names {
		back[v] = k
	}
	for _, k := range []string{"k1", "k2", "k3", "kx"} {
		b := make([]byte, 32)
		rand.Read(b)
		creds[k] = b
	}
}

func credOf(shared bool, n string) string {
	switch n {
	case "a":
		return "k1"
	case "b":
		if shared {
			return "k1"
		}
		return "k2"
	}
	return "k3"
}

func userMap(shared bool, reg []string) map[string]*appctlpb.User {
	m := map[string]*appctlpb.User{}
	for _, n := range reg {
		m[names[n]] = &appctlpb.User{Name: proto.String(names[n]), HashedPassword: proto.String(hex.EncodeToString(creds[credOf(shared, n)]))}
	}
	return m
}

func has(l []string, s string) bool {
	for _, x := range l {
		if x == s {
			return true
		}
	}
	return false
}

// segment builds the first 72 bytes of an openSessionRequest under credential class cred whose hint matches exactly the names in hint.
func segment(t *testing.T, cred string, hint []string) []byte {
	for tries := 0; tries < 100; tries++ {
		nonce := make([]byte, 24)
		rand.Read(nonce)
		switch {
		case has(hint, "a") && has(hint, "b"):
			copy(nonce, prefixC)
			refcodec.ApplyHint(names["a"], nonce)
		case len(hint) == 1:
			refcodec.ApplyHint(names[hint[0]], nonce)
		}
		ok := true
		for _, n := range []string{"a", "b", "c"} {
			if refcodec.HintMatches(names[n], nonce) != has(hint, n) {
				ok = false
			}
		}
		if !ok {
			continue
		}
		now := time.Now().Unix()
		m := refcodec.Meta{Type: refcodec.T("openSessionRequest"), Timestamp: uint32(now / 60), SID: uint32(tries + 1000), Seq: 0}
		return refcodec.SealMeta(refcodec.KeyAt(creds[cred], now), nonce, m)
	}
	t.Fatalf("cannot build a nonce whose hint matches exactly %v", hint)
	return nil
}

var srcCounter uint32

func freshSource() serveruser.Source {
	n := atomic.AddUint32(&srcCounter, 1)
	return serveruser.SourceFromAddr(&net.UDPAddr{IP: net.IPv4(10, byte(n>>16), byte(n>>8), byte(n)), Port: 4000})
}

func discover(r *serveruser.Registry, seg []byte, src serveruser.Source) (string, serveruser.Authentication) {
	block, _, auth, err := r.Discover(seg, src, true)
	if err != nil || block == nil {
		return "none", auth
	}
	u, ok := back[block.BlockContext().UserName]
	if !ok {
		return "?" + block.BlockContext().UserName, auth
	}
	return u, auth
}

func runRow(t *testing.T, rw *row) {
	reg := &serveruser.Registry{}
	reg.SetHintMandatory(rw.Mandatory)
	first := rw.Reg
	if rw.Prev != nil {
		first = rw.Prev
		rw.Reloaded = true
	}
	reg.SetUsers(userMap(rw.Shared, first))
	src := freshSource()
	for _, n := range rw.Cache {
		u, auth := discover(reg, segment(t, credOf(rw.Shared, n), []string{n}), src)
		if u != n {
			rw.Note += fmt.Sprintf("warming as %s was attributed to %s;", n, u)
		}
		auth.Record()
	}
	var late serveruser.Authentication
	if rw.Prev != nil {
		// an authentication obtained just before the reload and recorded just after it must not leak into the new generation
		if len(rw.Prev) > 0 {
			_, late = discover(reg, segment(t, credOf(rw.Shared, rw.Prev[0]), []string{rw.Prev[0]}), src)
		}
		reg.SetUsers(userMap(rw.Shared, rw.Reg))
		late.Record()
	}
	if rw.Seam {
		return // handled by runSeamRow
	}
	rw.User, _ = discover(reg, segment(t, rw.Cred, rw.Hint), src)
	rw.Cold, _ = discover(reg, segment(t, rw.Cred, rw.Hint), freshSource())
}

// runSeamRow: the probed segment is discovered while Prev is registered; the reload to Reg completes after the first attempt on the
// old generation and before discovery decides (the seam the package's own tests use, exposed under the verif tag).
func runSeamRow(t *testing.T, rw *row) {
	reg := &serveruser.Registry{}
	reg.SetHintMandatory(rw.Mandatory)
	reg.SetUsers(userMap(rw.Shared, rw.Prev))
	rw.Reloaded = true
	src := freshSource()
	for _, n := range rw.Cache {
		_, auth := discover(reg, segment(t, credOf(rw.Shared, n), []string{n}), src)
		auth.Record()
	}
	reloaded := false
	seam := func() {
		if !reloaded {
			reloaded = true
			reg.SetUsers(userMap(rw.Shared, rw.Reg))
		}
	}
	probe := func(s serveruser.Source) string {
		block, _, auth, err := reg.VerifDiscover(segment(t, rw.Cred, rw.Hint), s, true, seam)
		if err != nil || block == nil {
			return "none"
		}
		auth.Record()
		if u, ok := back[block.BlockContext().UserName]; ok {
			return u
		}
		return "?" + block.BlockContext().UserName
	}
	rw.User = probe(src)
	rw.Cold, _ = discover(reg, segment(t, rw.Cred, rw.Hint), freshSource())
}

func TestRows(t *testing.T) {
	setup(t)
	in, err := os.ReadFile(os.Getenv("VERIF_IN"))
	if err != nil {
		t.Skip("VERIF_IN not set")
	}
	out, _ := os.Create(os.Getenv("VERIF_OUT"))
	defer out.Close()
	enc := json.NewEncoder(out)
	dec := json.NewDecoder(bytesReader(in))
	for dec.More() {
		var rw row
		if err := dec.Decode(&rw); err != nil {
			t.Fatal(err)
		}
		if rw.Seam {
			runSeamRow(t, &rw)
		} else {
			runRow(t, &rw)
		}
		if rw.Prev == nil {
			rw.Prev = []string{}
		}
		enc.Encode(&rw)
	}
	t.Logf("names: %v", names)
}

// TestReloadRace: reloads alternate between two user sets while probes run concurrently.  A probe that ran entirely while no reload
// was in progress must be answered according to the set loaded last.
func TestReloadRace(t *testing.T) {
	setup(t)
	outPath := os.Getenv("VERIF_OUT")
	if outPath == "" {
		t.Skip("VERIF_OUT not set")
	}
	reg := &serveruser.Registry{}
	sets := [][]string{{"a", "c"}, {"b"}, {}, {"c"}}
	var started, completed atomic.Int64
	reg.SetUsers(userMap(false, sets[0]))
	started.Store(1)
	completed.Store(1)
	stop := make(chan struct{})
	var wg sync.WaitGroup
	var mu sync.Mutex
	var rows []row
	deadline := time.Now().Add(3 * time.Second)
	for w := 0; w < 6; w++ {
		wg.Add(1)
		go func(w int) {
			defer wg.Done()
			src := freshSource()
			for i := 0; ; i++ {
				select {
				case <-stop:
					return
				default:
				}
				who := []string{"a", "b", "c"}[(i+w)%3]
				seg := segment(t, credOf(false, who), []string{who})
				c0, s0 := completed.Load(), started.Load()
				u, auth := discover(reg, seg, src)
				s1 := started.Load()
				auth.Record()
				if c0 == s0 && s1 == s0 { // no reload overlapped the probe
					cur := sets[int(c0-1)%len(sets)]
					mu.Lock()
					if len(rows) < 20000 {
						rows = append(rows, row{Reg: cur, Cache: []string{}, Cred: credOf(false, who), Hint: []string{who}, User: u, Cold: u, Prev: []string{}, Note: "race"})
					}
					mu.Unlock()
				}
			}
		}(w)
	}
	n := int64(1)
	enough := func() bool { mu.Lock(); defer mu.Unlock(); return len(rows) >= 400 }
	hard := time.Now().Add(25 * time.Second) // on a loaded machine few probes fall outside every reload: keep going until there are enough
	for time.Now().Before(deadline) || (!enough() && time.Now().Before(hard)) {
		started.Add(1)
		reg.SetUsers(userMap(false, sets[int(n)%len(sets)]))
		n++
		completed.Add(1)
		time.Sleep(300 * time.Microsecond)
	}
	close(stop)
	wg.Wait()
	out, _ := os.Create(outPath)
	defer out.Close()
	enc := json.NewEncoder(out)
	for i := range rows {
		enc.Encode(&rows[i])
	}
	t.Logf("%d reloads, %d probes outside any reload", n, len(rows))
}

type br struct {
	b []byte
	i int
}

func (r *br) Read(p []byte) (int, error) {
	if r.i >= len(r.b) {
		return 0, io.EOF
	}
	n := copy(p, r.b[r.i:])
	r.i += n
	return n, nil
}
func bytesReader(b []byte) *br { return &br{b: b} }
