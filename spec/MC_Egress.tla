------------------------------ MODULE MC_Egress ------------------------------
EXTENDS Egress
ASSUME GateHolds
ASSUME Unaffected
ASSUME FirstWins
ASSUME PrintT(<<"TABLE", ToJson([decide |-> Table, relay |-> RelayTable])>>)
=============================================================================
