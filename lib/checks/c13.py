"""C13 - acks never run ahead of receipt; retransmissions never change content; seqs dense from zero.

design spec   spec/SessionPacket.tla: AckSound, AckOnWire, NoEarlyDiscard (TLC exhaustive, same runs as C02)
code -> spec  purely observational: simnet logs Deliver and Emit under one lock, the reference codec decodes
              every datagram; TLC evaluates AckSound / RetxSame / SeqDense at every emitted datagram of every
              trace (TLC-generated fault schedules, named schedules, random loss/dup/reorder).
"""
import json
import random
import shutil

import sessions
import vlib
from checks import c02

INVS = ["AckSound", "RetxSame", "SeqDense", "TxContiguous", "CloseSeqUnique"]


def named_schedules(seed):
    out = []
    for sc in c02.named_schedules(seed):
        if "paused-reader" in sc["id"] or "window-closes" in sc["id"]:
            continue
        sc = dict(sc)
        sc["notx"] = 0
        out.append(sc)
    # both ends close at the same moment while the client's socket is busy: its output loop sits in WriteTo (holding the output lock)
    # when the application's Close and the peer's close request both want a sequence number
    F = lambda ep, kind, seq, tx, fate, **kw: dict({"ep": ep, "kind": kind, "s": -1, "seq": seq, "tx": tx, "fate": fate}, **kw)
    for ms in (300, 900):
        for kind in ("ack", "data"):
            out.append({"id": "named/simultaneous-close-while-the-socket-is-busy-%s-%d" % (kind, ms), "transport": "udp", "mtu": 1400, "seed": seed,
                        "limit": 900, "notx": 0, "realtime": True,   # a mutex waiter behind a sleeping holder stops a virtual clock
                        "sessions": [{"c": [["w", 1000], ["rn", 500], ["w", 700], ["close"]], "s": [["rn", 1000], ["w", 500], ["sleep", 100], ["close"]]}],
                        "faults": [F("C", kind, -1, 0, "stall", ms=ms, n=1)]})
    # buffers reused by the application after Write returns (io.Copy style): harness always passes
    # fresh keystream slices, so content changes show up as digest changes of a retransmitted seq
    return out


def run(ctx):
    ctx.level = "model_checking"
    ctx.coverage["rule"] = ("every datagram emitted in every replayed fault schedule is decoded by the reference codec; "
                            "its cumulative ack is compared with the exact set of datagrams the network had delivered "
                            "to its sender, and every (session, direction, seq) is compared across transmissions. "
                            "distinct_nontrivial = scenarios containing at least one retransmission or out-of-order delivery")
    ctx.assumptions += ["virtual time (testing/synctest)", "reference codec decodes with the test user's credential",
                        "deliveries are logged before the endpoint can read them; acks are computed before WriteTo"]
    wd = vlib.scratch_dir("verif-c13-")
    try:
        cfgs = c02.QUICK_CFGS + (c02.THOROUGH_CFGS if ctx.thorough() else [])
        tables = c02.model(ctx, cfgs)
        rnd = random.Random(ctx.seed + 13)
        scen = []
        per_cfg = 40 if not ctx.thorough() else 100000
        for cfg, tabs in tables.items():
            pick = tabs if len(tabs) <= per_cfg else rnd.sample(tabs, per_cfg)
            for k, t in enumerate(pick):
                scen.append(c02.scenario_from(cfg, k, t, ctx.seed, mtu=[1400, 1280, 1500][k % 3]))
        scen += named_schedules(ctx.seed)
        rr = c02.random_runs(ctx, 10 if not ctx.thorough() else 150, ctx.seed + 13)
        for sc in rr:
            sc["notx"] = 0
        scen += rr
        trace = sessions.check_traces(ctx, scen, wd, "c13", INVS, timeout=2400)
        nontrivial = 0
        for sid, start, lines in sessions.split_traces(trace):
            if any('"tx":2' in x or '"fate":"delay"' in x or '"fate":"dup"' in x for x in lines):
                nontrivial += 1
        ctx.coverage["distinct_nontrivial"] += nontrivial
        sessions.sample_trace(ctx, trace, "named/hole-then-duplicate-of-delivered", n=30)
    finally:
        shutil.rmtree(wd, ignore_errors=True)


def replay(ctx, path):
    rp = json.load(open(path))
    wd = vlib.scratch_dir("verif-c13r-")
    try:
        sessions.check_traces(ctx, [rp["scenario"]], wd, "replay", INVS)
    finally:
        shutil.rmtree(wd, ignore_errors=True)
