CONSTANTS
  PreferNoAuth = TRUE
INIT Init
NEXT Next
INVARIANTS GateInv RulesInv
CHECK_DEADLOCK FALSE
