package c14

import (
	"context"
	"io"
	"net"
	"sync/atomic"
	"testing"
	"testing/synctest"
	"time"

	"github.com/enfein/mieru/v3/pkg/appctl/appctlcommon"
	"github.com/enfein/mieru/v3/pkg/appctl/appctlpb"
	"github.com/enfein/mieru/v3/pkg/common"
	"github.com/enfein/mieru/v3/pkg/protocol"
	"google.golang.org/protobuf/proto"

	"verifharness/simnet"
	"verifharness/vt"
)

type nilResolver struct{}

func (nilResolver) LookupIP(ctx context.Context, network, host string) ([]net.IP, error) {
	return []net.IP{net.ParseIP(host)}, nil
}

// TestProfileMTU: a client built from a PROFILE (the way the command-line client and apis/client build it) honours the profile's MTU:
// the longest datagram it emits during an upload is recorded.
func TestProfileMTU(t *testing.T) {
	out := vt.MustCreate(t, "VERIF_OUT")
	defer out.Close()
	for _, mtu := range []int{0, 1280, 1281, 1340, 1399, 1400, 1401, 1500} {
		var longest atomic.Int64
		note := ""
		synctest.Test(t, func(t *testing.T) {
			pnet := simnet.NewPacketNet()
			pnet.OnEmit = func(d simnet.Datagram, f simnet.Fate) {
				if d.Src.IP.Equal(net.IPv4(10, 2, 0, 1)) && int64(len(d.Data)) > longest.Load() {
					longest.Store(int64(len(d.Data)))
				}
			}
			smux := protocol.NewMux(false)
			smux.SetServerUsers(map[string]*appctlpb.User{"puser": {Name: proto.String("puser"), Password: proto.String("ppass")}})
			smux.SetPacketListenerFactory(pnet)
			smux.SetEndpoints([]protocol.UnderlayProperties{protocol.NewUnderlayProperties(1500, common.PacketTransport, &net.UDPAddr{IP: net.IPv4(10, 1, 0, 1), Port: 7000}, nil)})
			if err := smux.Start(); err != nil {
				t.Fatalf("server start: %v", err)
			}
			go func() {
				for {
					c, err := smux.Accept()
					if err != nil {
						return
					}
					go func() { io.Copy(io.Discard, c); c.Close() }()
				}
			}()
			p := &appctlpb.ClientProfile{ProfileName: proto.String("p"), User: &appctlpb.User{Name: proto.String("puser"), Password: proto.String("ppass")},
				Servers: []*appctlpb.ServerEndpoint{{IpAddress: proto.String("10.1.0.1"), PortBindings: []*appctlpb.PortBinding{{Port: proto.Int32(7000), Protocol: appctlpb.TransportProtocol_UDP.Enum()}}}}}
			if mtu != 0 {
				p.Mtu = proto.Int32(int32(mtu))
			}
			if err := appctlcommon.ValidateClientConfigSingleProfile(p); err != nil {
				note = "profile refused: " + err.Error()
				smux.Close()
				time.Sleep(150 * time.Second)
				return
			}
			cmux, err := appctlcommon.NewClientMuxFromProfile(p, nil, pnet.Dialer("10.2.0.1"), nilResolver{}, nil)
			if err != nil {
				note = "mux: " + err.Error()
				smux.Close()
				time.Sleep(150 * time.Second)
				return
			}
			ctx, cancel := context.WithTimeout(context.Background(), 5*time.Second)
			c, err := cmux.DialContext(ctx)
			cancel()
			if err != nil {
				note = "dial: " + err.Error()
			} else {
				c.Write(make([]byte, 1024))
				c.Write(make([]byte, 20000))
				time.Sleep(2 * time.Second)
				c.Close()
			}
			time.Sleep(3 * time.Second)
			cmux.Close()
			smux.Close()
			time.Sleep(150 * time.Second)
		})
		eff := mtu
		if eff == 0 {
			eff = 1400 // the documented default
		}
		out.Emit(map[string]any{"ev": "profile", "mtu": mtu, "effective": eff, "longest": longest.Load(), "note": note})
	}
}
