--------------------------- MODULE Trace_Lifecycle ---------------------------
(* Validates timed operation records of REAL proxy connections (harness/c15, real time, milliseconds).  Records of one scenario are  *)
(* contiguous and ordered by the time they refer to: closebegin / fail when they happened, an operation when it returned (or, if it *)
(* never did, at the final collection with end = -1).  The bounds are those of spec/Lifecycle.tla made concrete.                    *)
EXTENDS Integers, Sequences, FiniteSets, TLC, Json, IOUtils
CONSTANTS Slack,        \* ms a deadline may be overshot
          LocalBound,   \* ms after a local Close within which that end's blocked operations return
          RemoteBound,  \* ms after the peer's Close (close request crosses the network)
          FailBound,    \* ms after a TCP reset
          CloseBound    \* ms a Close may take
Trace == ndJsonDeserialize(IOEnv.VERIF_TRACE)
VARIABLES l, sc, cbeg, failT, lastW
Ends == {"C", "S"}
Peer(e) == IF e = "C" THEN "S" ELSE "C"
Fresh == [e \in Ends |-> -1]
Init == l = 1 /\ sc = -1 /\ cbeg = Fresh /\ failT = -1 /\ lastW = Fresh
Next == /\ l <= Len(Trace) /\ l' = l + 1
        /\ LET r == Trace[l]
               new == r.sc # sc
               cb0 == IF new THEN Fresh ELSE cbeg
               f0 == IF new THEN -1 ELSE failT
           IN /\ sc' = r.sc
              /\ cbeg' = IF r.ev = "closebegin" /\ cb0[r.ep] < 0 THEN [cb0 EXCEPT ![r.ep] = r.t] ELSE cb0
              /\ failT' = IF r.ev = "fail" /\ f0 < 0 THEN r.t ELSE f0
              /\ lastW' = LET w0 == IF new THEN Fresh ELSE lastW
                           IN IF r.ev = "op" /\ r.kind \in {"write", "bigwrite"} /\ r.end >= 0 THEN [w0 EXCEPT ![r.ep] = r.end] ELSE w0
Spec == Init /\ [][Next]_<<l, sc, cbeg, failT, lastW>>
R == Trace[l - 1]
Seen == l > 1
Max(a, b) == IF a > b THEN a ELSE b
IsIO == Seen /\ R.ev = "op" /\ R.kind \in {"read", "write", "bigwrite"}
OpEnd == IF R.end < 0 THEN R.t ELSE R.end

\* C15 on the measured operations
DeadlineBounds == (IsIO /\ R.dl >= 0) => OpEnd <= Max(R.start, R.dl) + Slack
LocalCloseReleases == (IsIO /\ cbeg[R.ep] >= 0) => OpEnd <= Max(R.start, cbeg[R.ep]) + LocalBound
RemoteCloseReleases == (IsIO /\ cbeg[Peer(R.ep)] >= 0 /\ failT < 0) => OpEnd <= Max(R.start, cbeg[Peer(R.ep)]) + RemoteBound
FailureReleases == (IsIO /\ failT >= 0 /\ R.tr = "tcp") => OpEnd <= Max(R.start, failT) + FailBound
\* a Read under no deadline does not fail with a timeout - except the client's own response timeout, which fires 10 s after a Write
Abs(x) == IF x < 0 THEN -x ELSE x
NoSpuriousTimeout == (IsIO /\ R.kind = "read" /\ R.dl < 0 /\ R.res = "timeout") =>
                        (R.ep = "C" /\ lastW["C"] >= 0 /\ Abs(R.end - (lastW["C"] + 10000)) <= Slack)
ClosePrompt == (Seen /\ R.ev = "op" /\ R.kind \in {"close", "mclose"}) => (R.end >= 0 /\ R.end - R.start <= CloseBound)
NothingLeftRunning == (Seen /\ R.ev = "end") => (R.leak = 0 /\ R.note = "")
TraceAccepted == TLCGet("stats").diameter - 1 = Len(Trace)
=============================================================================
