-------------------------- MODULE LowEntropyOracle --------------------------
(* The same operators at full width (bytes, 64-bit chunks), used by TLC as an evaluation oracle: vectors are read *)
(* from a JSON file, the expected PDEP/PEXT results, encodings and decode verdicts are printed as JSON.           *)
EXTENDS LowEntropy, Json, IOUtils

Vec == JsonDeserialize(IOEnv.VERIF_VECTORS)

ToBits(seq01) == [i \in 1..Len(seq01) |-> seq01[i]]          \* JSON arrays arrive as sequences already
ByteUnit(b) == [i \in 1..8 |-> (b \div (2 ^ (i - 1))) % 2]   \* a byte as 8 bits, lsb first
UnitByte(u) == u[1] + 2 * u[2] + 4 * u[3] + 8 * u[4] + 16 * u[5] + 32 * u[6] + 64 * u[7] + 128 * u[8]
Body(bs) == [i \in 1..Len(bs) |-> ByteUnit(bs[i])]
\* a chunk word as its 8 wire bytes, most significant first
WordBytes(w) == [k \in 1..8 |-> UnitByte([b \in 1..8 |-> w[(8 - k) * 8 + b]])]
BytesWord(bs) == [i \in 1..64 |-> ByteUnit(bs[8 - ((i - 1) \div 8)])[((i - 1) % 8) + 1]]
Flat(enc) == [i \in 1..(8 * Len(enc)) |-> WordBytes(enc[((i - 1) \div 8) + 1])[((i - 1) % 8) + 1]]
Unflat(bs) == [k \in 1..(Len(bs) \div 8) |-> BytesWord(SubSeq(bs, (k - 1) * 8 + 1, k * 8))]

BitOps == [k \in 1..Len(Vec.bitops) |->
             LET v == Vec.bitops[k] IN [pdep |-> PDEP(v.x, v.mask), pext |-> PEXT(v.x, v.mask)]]

Enc == [k \in 1..Len(Vec.encode) |->
          LET v == Vec.encode[k]
              C == v.mode + 3
          IN Flat(Encode(Body(v.body), C, v.half, v.rot, v.pad))]

Dec == [k \in 1..Len(Vec.decode) |->
          LET v == Vec.decode[k]
              C == v.mode + 3
          IN IF v.mode \notin 1..4 \/ Len(v.enc) % 8 # 0 \/ Len(v.half) # 32 THEN [ok |-> FALSE, body |-> <<>>]
             ELSE LET d == Decode(Unflat(v.enc), v.n, C, v.half, v.rot)
                  IN [ok |-> d.ok, body |-> IF d.ok THEN [j \in 1..Len(d.body) |-> UnitByte(d.body[j])] ELSE <<>>]]

ASSUME PrintT(<<"ORACLE", ToJson([bitops |-> BitOps, encode |-> Enc, decode |-> Dec])>>)
VARIABLE x
Init == x = 0
Next == x' = x /\ FALSE
=============================================================================
