------------------------------ MODULE MC_KeyTime ------------------------------
EXTENDS KeyTime
ASSUME Agree
ASSUME StaleStamp
ASSUME StaleKey
ASSUME PrintT(<<"TABLE", ToJson(Table)>>)
=============================================================================
