"""C07 - a session is attributed to a user whose credential authenticated its first segment.

design spec   spec/UserDiscovery.tla: the four-phase candidate order of tryState over a registry of three names (two of which
              collide on the 4-byte hint and may share one credential), a per-source cache and mandatory / optional hints.  TLC
              evaluates AuthOK (attribution, rejection, mandatory-hint rejection, hint preference, acceptance) and
              CacheIndependent over all 2480 combinations; the variant that skips the registry-wide hint scan after a cached
              hint match (MC_UserDiscovery_skip) violates AuthOK
spec -> code  every row of the exported table is concretised (the colliding name pair comes from a birthday search over names
              under a fixed nonce prefix; credentials are random keys; the cache is warmed by real authentications that are
              recorded) and presented to a real serveruser.Registry; a second family warms the cache in one generation, obtains
              an authentication, reloads (also to no usable user) and records the stale authentication afterwards; a third runs
              reloads concurrently with probes and keeps the probes no reload overlapped; a fourth lets the reload complete inside the
              discovery of the probed segment, through the seam of discoverUser (hook VerifDiscover, tag verif)
code -> spec  TLC validates every record (Trace_UserDiscovery): Authenticated, NoCredentialRejected, MandatoryHintRejected,
              HintPreferred, Accepted, CacheIndependent on what the real registry answered; Conforms (candidate order) as drift
"""
import itertools
import json
import os
import random
import shutil

import vlib
from vlib import Inconclusive

PROPS = ("Authenticated", "NoCredentialRejected", "MandatoryHintRejected", "HintPreferred", "Accepted", "CacheIndependent")
NAMES = ["a", "b", "c"]


def subsets(s):
    return [list(c) for n in range(len(s) + 1) for c in itertools.combinations(s, n)]


def caches(reg):
    return [[]] + [[x] for x in reg] + [[x, y] for x in reg for y in reg if x != y]


def describe(rec, inv):
    how = "reload %s -> %s, " % (rec["prev"], rec["reg"]) if rec.get("reloaded") else ""
    text = ("%s: registry %s%s%s, %ssource cache %s, segment under credential %s with hint matching %s: attributed to %s (cold source: %s)"
            % (inv, rec["reg"], " (a and b share a credential)" if rec["shared"] else "", ", hints mandatory" if rec["mandatory"] else "",
               how, rec["cache"], rec["cred"], rec["hint"], rec["user"], rec["cold"]))
    return text, "C07:%s" % inv


def run(ctx):
    ctx.level = "model_checking"
    ctx.coverage["rule"] = ("rows = (shared credential?, registered subset, hint mandatory?, source-cache sequence, credential class, "
                            "hint-collision class) exported by TLC, plus reload rows (previous set, cache warmed there, new set); "
                            "distinct_nontrivial = rows with a warm cache or a reload")
    ctx.assumptions += ["three names, one colliding pair; caches of up to two users (the real cache holds 16 per source)",
                        "cache entries do not expire during a row (expiry is 1 s-tick based and minutes long)"]
    wd = vlib.scratch_dir("verif-c07-")
    try:
        res = vlib.tlc("MC_UserDiscovery", "MC_UserDiscovery", timeout=900, tags=("TABLE",))
        if res.violated or res.error or not res.prints:
            raise Inconclusive("UserDiscovery model: %s %s\n%s" % (res.violated, res.error, res.out[-1500:]))
        ctx.add_tlc(res, "UserDiscovery: AuthOK and CacheIndependent over every combination")
        ctx.coverage["evaluations"] += len(res.prints[0][1])
        bad = vlib.tlc("MC_UserDiscovery", "MC_UserDiscovery_skip", timeout=900, tags=("TABLE",))
        sens = "AuthInv" in (bad.error or "") or bad.violated == "AuthInv"
        ctx.coverage["model_detects_skipped_hint_scan"] = sens
        if not sens:
            raise Inconclusive("sanity: skipping the registry hint scan should violate AuthInv: %s" % bad.error)
        table = res.prints[0][1]
        rnd = random.Random(ctx.seed)
        rows = []
        for r in table:
            q = dict(r)
            q.pop("user", None)
            q["prev"] = None
            rows.append(q)
        reload_rows = []
        regs = [s for s in subsets(NAMES)]
        for shared in (False, True):
            for prev in regs:
                if not prev:
                    continue
                for cache in caches(prev):
                    for reg in regs:
                        for m in (False, True):
                            for cred in ("k1", "k2", "k3", "kx"):
                                for hint in ([], ["a"], ["b"], ["c"], ["a", "b"]):
                                    reload_rows.append({"shared": shared, "reg": reg, "mandatory": m, "cache": cache, "cred": cred,
                                                        "hint": hint, "prev": prev})
        if not ctx.thorough():
            reload_rows = rnd.sample(reload_rows, 2500)
        rows += reload_rows
        # the same reloads, but completing INSIDE the discovery of the probed segment (after its first attempt on the old generation)
        seam_rows = [dict(r, seam=True) for r in (reload_rows if ctx.thorough() else rnd.sample(reload_rows, 800))]
        rows += seam_rows
        pin, pout, prace = (os.path.join(wd, n) for n in ("rows.ndjson", "real.ndjson", "race.ndjson"))
        vlib.write_ndjson(pin, rows)
        rc, log, _ = vlib.go_test("./c07/", "TestRows$", env={"VERIF_IN": pin, "VERIF_OUT": pout}, timeout=1500)
        if rc != 0 or not os.path.exists(pout):
            raise Inconclusive("driver TestRows failed:\n" + log[-3000:])
        got = vlib.read_ndjson(pout)
        if len(got) != len(rows):
            raise Inconclusive("driver ran %d of %d rows" % (len(got), len(rows)))
        notes = [g for g in got if g.get("note")]
        if notes:
            ctx.drift.append("cache warming attributed to another user: %s" % notes[0])
        rc, log, _ = vlib.go_test("./c07/", "TestReloadRace$", env={"VERIF_OUT": prace}, timeout=600, race=True)
        if rc != 0 or not os.path.exists(prace):
            raise Inconclusive("driver TestReloadRace failed:\n" + log[-3000:])
        race = vlib.read_ndjson(prace)
        for g in race:
            g.setdefault("shared", False)
            g.setdefault("mandatory", False)
            g.setdefault("reloaded", False)
        ctx.coverage["race_probes_outside_reloads"] = len(race)
        if len(race) < 50:
            raise Inconclusive("reload race produced only %d usable probes" % len(race))
        allrec = got + race
        pall = os.path.join(wd, "all.ndjson")
        vlib.write_ndjson(pall, allrec)
        ctx.coverage["evaluations"] += len(allrec)
        ctx.coverage["distinct_nontrivial"] += sum(1 for g in got if g["cache"] or g.get("reloaded"))
        ctx.sample({"kind": "row on the real registry", "record": next(g for g in got if g["cache"] and len(g["hint"]) == 2)})
        ctx.sample({"kind": "reload row", "record": next(g for g in got if g.get("reloaded"))})
        vlib.validate_records(ctx, "Trace_UserDiscovery", "Trace_UserDiscovery", pall, PROPS, describe, wd)
        vlib.validate_records(ctx, "Trace_UserDiscovery", "Trace_UserDiscovery_conf", pout, ("Conforms",), describe, wd, drift=True)
    finally:
        shutil.rmtree(wd, ignore_errors=True)


def replay(ctx, path):
    rec = json.load(open(path))
    wd = vlib.scratch_dir("verif-c07r-")
    try:
        rec.pop("user", None)
        rec.pop("cold", None)
        if not rec.get("reloaded"):
            rec["prev"] = None
        pin, pout = os.path.join(wd, "rows.ndjson"), os.path.join(wd, "real.ndjson")
        vlib.write_ndjson(pin, [rec])
        rc, log, _ = vlib.go_test("./c07/", "TestRows$", env={"VERIF_IN": pin, "VERIF_OUT": pout}, timeout=600)
        if rc != 0:
            raise Inconclusive(log[-2000:])
        vlib.validate_records(ctx, "Trace_UserDiscovery", "Trace_UserDiscovery", pout, PROPS, describe, wd)
    finally:
        shutil.rmtree(wd, ignore_errors=True)
