CONSTANTS
  NC = 2
  NS = 0
  Win = 2
  MaxTx = 3
  Drops = 2
  Dups = 1
  Piggy = TRUE
  CloseC = TRUE
  InOrderClose = TRUE
INIT Init
NEXT Next
INVARIANTS PrefixOK AckSound AckOnWire NoEarlyDiscard CloseNoTrunc NoStall NotAbandoned DumpFates
CHECK_DEADLOCK FALSE
