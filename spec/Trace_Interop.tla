--------------------------- MODULE Trace_Interop ---------------------------
(* Monitor for runs in which an INDEPENDENT implementation of docs/protocol.md *)
(* (harness/refcodec, parameters from Wire.tla) talks to a real mieru endpoint. *)
(* Events: Begin(id, role/transport), Recv(pt, n, ok, le) = a segment the real   *)
(* endpoint emitted, decoded by the reference codec (ok = decodable, type in the  *)
(* expected direction, right session, within MTU; le = a server sent a low        *)
(* entropy type although the client never did), End(n echoed, sent, ok = equal).  *)
EXTENDS Integers, Sequences, TLC, Json, IOUtils

Trace == ndJsonDeserialize(IOEnv.VERIF_TRACE)
VARIABLES l, cur, recvd, last
vars == <<l, cur, recvd, last>>

Init == l = 1 /\ cur = "" /\ recvd = 0 /\ last = [ev |-> "none"]
E == Trace[l]
Next == /\ l <= Len(Trace) /\ l' = l + 1
        /\ \/ E.ev = "Begin" /\ cur' = E.id /\ recvd' = 0 /\ last' = [ev |-> "Begin"]
           \/ E.ev = "Recv" /\ recvd' = recvd + E.n /\ UNCHANGED cur
              /\ last' = [ev |-> "Recv", ok |-> E.ok, le |-> E.le, err |-> E.err]
           \/ E.ev = "End" /\ UNCHANGED <<cur, recvd>>
              /\ last' = [ev |-> "End", ok |-> E.ok, n |-> E.n, sent |-> E.sent]
           \/ E.ev = "Fail" /\ UNCHANGED <<cur, recvd>> /\ last' = [ev |-> "Fail", err |-> E.err]
Spec == Init /\ [][Next]_vars

\* C09: every segment the real endpoint emits is understood by the reference implementation
Understood == last.ev = "Recv" => last.ok
\* C09: everything the reference implementation sent was understood by the real endpoint (echoed back exactly)
EchoExact == last.ev = "End" => (last.ok /\ last.n = last.sent)
NoFailure == last.ev # "Fail"
\* C16: a server uses low entropy only toward a client that used it first
ServerLEOnlyAfterClient == last.ev = "Recv" => ~last.le
TraceAccepted == TLCGet("stats").diameter - 1 = Len(Trace)
=============================================================================
