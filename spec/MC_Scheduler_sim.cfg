CONSTANTS
  MaxSteps = 9
SPECIFICATION Spec
INVARIANTS DisabledIsForever IdleImpliesDisabled DumpHist
CHECK_DEADLOCK FALSE
