CONSTANTS
  MaxSteps = 5
  Persist = TRUE
SPECIFICATION Spec
INVARIANTS DeadlineBounds
CHECK_DEADLOCK FALSE
