---------------------------- MODULE ReplayCache ----------------------------
(***************************************************************************)
(* The two-generation replay cache of pkg/replay/replay.go, written the    *)
(* way the code is written (one action = one IsDuplicate call, which is    *)
(* one critical section under ReplayCache.mu), next to an ideal memory of  *)
(* what the property C06 says the cache must remember.                     *)
(*                                                                         *)
(* Time is relative: ttl = expireTime - now, ages saturate, so the state   *)
(* space is finite without bounding the number of calls.                   *)
(***************************************************************************)
EXTENDS Integers, FiniteSets, Sequences, TLC

CONSTANTS Items,      \* signatures
          Tags,       \* non-empty tags (source addresses)
          Cap,        \* capacity of one generation (>= 1)
          Interval,   \* expire interval in ticks (>= 1)
          Steps,      \* set of time advances (ticks) allowed before a call
          CarryTag    \* TRUE: an entry found only in `previous` is carried
                      \* into `current` with its ORIGINAL tag (code after the
                      \* fix commit); FALSE: the caller's tag is inserted
                      \* before `previous` is consulted (code before the fix)

E == "E"                       \* the empty tag
AllTags == Tags \cup {E}
None == "none"
NoRec == [has |-> FALSE, age |-> 0, tag |-> E, since |-> {}]

VARIABLES ttl,     \* expireTime - now, saturated below at -(Interval+1)
          cur,     \* [Items -> AllTags \cup {None}]
          prev,    \* same
          rec,     \* ideal memory: [Items -> [has, age, tag, since]]
          seen,    \* [Items -> SUBSET AllTags] tags ever used to query the item
          last     \* observation of the most recent call

cvars == <<ttl, cur, prev>>
vars == <<ttl, cur, prev, rec, seen, last>>

Empty == [i \in Items |-> None]
Size(m) == Cardinality({i \in Items : m[i] # None})
Sat(x) == IF x < -(Interval + 1) THEN -(Interval + 1) ELSE x
SatAge(a) == IF a > Interval THEN Interval ELSE a
TagDup(old, new) == old = E \/ new = E \/ old # new

Init == /\ ttl = Interval
        /\ cur = Empty
        /\ prev = Empty
        /\ rec = [i \in Items |-> NoRec]
        /\ seen = [i \in Items |-> {}]
        /\ last = [hit |-> FALSE]

(* The cache after the two expiry tests at the top of IsDuplicate, dt ticks
   after the previous call. *)
AfterExpiry(dt) ==
  LET t1 == Sat(ttl - dt)
      cleared == t1 < -Interval            \* time.Since(expire) > interval
      c1 == IF cleared THEN Empty ELSE cur
      p1 == IF cleared THEN Empty ELSE prev
      t2 == IF cleared THEN Interval ELSE t1
      rotate == Size(c1) >= Cap \/ t2 < 0    \* len(cur) >= cap || now.After(expire)
  IN [c |-> IF rotate THEN Empty ELSE c1,
      p |-> IF rotate THEN c1 ELSE p1,
      t |-> IF rotate THEN Interval ELSE t2]

(* Result and new maps of the lookup/insert part. *)
Lookup(c, p, i, t) ==
  IF c[i] # None THEN [res |-> TagDup(c[i], t), c |-> c]
  ELSE IF p[i] # None
       THEN [res |-> TagDup(p[i], t),
             c |-> [c EXCEPT ![i] = IF CarryTag THEN p[i] ELSE t]]
       ELSE [res |-> FALSE, c |-> [c EXCEPT ![i] = t]]

Live(r) == r.has /\ r.age < Interval /\ Cardinality(r.since) < Cap

(* What C06 demands of this call, evaluated BEFORE the call, with the
   ideal memory aged by dt. *)
MustDup(r, t) == Live(r) /\ TagDup(r.tag, t)

Aged(r, dt) == IF ~r.has THEN NoRec ELSE [r EXCEPT !.age = SatAge(r.age + dt)]

(* The ideal memory is driven by the call's inputs and by the ANSWER only
   (never by the cache's internals), so that it can follow a recorded
   history of the real code even where the code deviates from this model:
   a call answered "not duplicate" while nothing live is remembered for the
   item is a recording. *)
Ghost(dt, i, t, res) ==
  LET ri == Aged(rec[i], dt)
  IN /\ rec' = [j \in Items |->
                  IF j = i
                  THEN IF Live(ri) THEN ri           \* still remembered: unchanged
                       ELSE IF ~res THEN [has |-> TRUE, age |-> 0, tag |-> t, since |-> {}]
                       ELSE NoRec  \* answered from residue: no NEW recording is claimed
                  ELSE LET rj == Aged(rec[j], dt)
                       IN IF ~rj.has THEN NoRec ELSE [rj EXCEPT !.since = @ \cup {i}]]
     /\ seen' = [seen EXCEPT ![i] = @ \cup {t}]

Must(dt, i, t) == MustDup(Aged(rec[i], dt), t)

(* One IsDuplicate call = one critical section under ReplayCache.mu. *)
IsDuplicate(dt, i, t) ==
  LET a == AfterExpiry(dt)
      l == Lookup(a.c, a.p, i, t)
  IN /\ ttl' = a.t
     /\ cur' = l.c
     /\ prev' = a.p
     /\ Ghost(dt, i, t, l.res)
     /\ last' = [hit |-> TRUE, dt |-> dt, item |-> i, tag |-> t, res |-> l.res,
                 must |-> Must(dt, i, t), seenBefore |-> seen[i],
                 szc |-> Size(l.c), szp |-> Size(a.p)]

Next == \E dt \in Steps, i \in Items, t \in AllTags : IsDuplicate(dt, i, t)

Spec == Init /\ [][Next]_vars

---------------------------------------------------------------------------
(* C06, cache half. *)
NoMiss == last.hit /\ last.must => last.res
NoFalsePositive ==
  last.hit /\ last.res => \E t \in last.seenBefore : TagDup(t, last.tag)

TypeOK == /\ ttl \in -(Interval + 1)..Interval
          /\ cur \in [Items -> AllTags \cup {None}]
          /\ prev \in [Items -> AllTags \cup {None}]
          /\ Size(cur) <= Cap

(* Structural facts the code relies on. *)
CurBounded == Size(cur) <= Cap
=============================================================================
