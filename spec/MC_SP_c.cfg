CONSTANTS
  NC = 2
  NS = 0
  Win = 1
  MaxTx = 3
  Drops = 1
  Dups = 1
  Piggy = FALSE
  CloseC = TRUE
  InOrderClose = TRUE
INIT Init
NEXT Next
INVARIANTS PrefixOK AckSound AckOnWire NoEarlyDiscard CloseNoTrunc NoStall NotAbandoned DumpFates
CHECK_DEADLOCK FALSE
