CONSTANTS
  NC = 2
  NS = 1
  Win = 2
  MaxTx = 3
  Drops = 2
  Dups = 1
  Piggy = FALSE
  CloseC = FALSE
  InOrderClose = TRUE
INIT Init
NEXT Next
INVARIANTS PrefixOK AckSound AckOnWire NoEarlyDiscard CloseNoTrunc NoStall NotAbandoned DumpFates
CHECK_DEADLOCK FALSE
