"""C15 - Close completes, unblocks everyone and leaves nothing running; deadlines bound every later call.

design spec   spec/Lifecycle.tla: the two ends of one proxy connection as the applications see them (net.Conn contract) over abstract
              time - Read/Write that may block, read and write deadlines (set, changed, cleared, in the past), Close of the connection
              or of the whole mux at either end (repeatedly), abrupt failure of the network underneath, back-pressure, pauses - with the
              release rule of every pending operation.  TLC checks DeadlineBounds exhaustively on small schedules (the deadline a Read
              runs under is the one set earlier and not changed since); the variant in which a deadline is consumed by the first call
              (the code before the fix) violates it
spec -> code  schedules from TLC simulation are executed on real client and server muxes over the in-memory networks in REAL time
              (testing/synctest cannot be used: a goroutine waiting for a mutex held by a sleeping closer does not count as blocked),
              TCP and UDP, with and without an idle period longer than the 5 s housekeeping tick (thorough: longer than the 60 s idle
              timeout); every operation runs in its own goroutine and is timed; afterwards both ends are shut down and the goroutines
              that still carry the scenario's pprof label are listed.  The same driver is run under the race detector
code -> spec  TLC validates the timed records (Trace_Lifecycle): NoSpuriousTimeout, DeadlineBounds, LocalCloseReleases, RemoteCloseReleases,
              FailureReleases, ClosePrompt, NothingLeftRunning, with the bounds of the cfg (1.5 s deadline slack, 4 s local, 9 s remote /
              failure / close)
"""
import json
import os
import random
import shutil
import subprocess

import vlib
from vlib import Inconclusive

PROPS = ("NoSpuriousTimeout", "DeadlineBounds", "LocalCloseReleases", "RemoteCloseReleases", "FailureReleases", "ClosePrompt", "NothingLeftRunning")


def schedules(ctx, n):
    res = vlib.tlc("Lifecycle", "MC_Lifecycle", simulate=max(2 * n, 100), depth=40, seed=ctx.seed, workers=1, timeout=900)
    if res.violated or res.error:
        raise Inconclusive("Lifecycle simulation: %s %s" % (res.violated, res.error))
    ctx.add_tlc(res, "Lifecycle simulation (schedules)")
    seen, out = set(), []
    for _t, b in res.prints:
        k = json.dumps(b)
        if k not in seen:
            seen.add(k)
            out.append(b)
    rnd = random.Random(ctx.seed)
    rnd.shuffle(out)
    return out[:n]


def named():
    """Schedules every run contains: the deadline-persistence sequences and the classic close races."""
    R, W, P = (lambda e: {"op": "read", "ep": e}), (lambda e: {"op": "write", "ep": e}), (lambda d: {"op": "pause", "ep": "-", "d": d})
    rdl = lambda e, d: {"op": "rdl", "ep": e, "d": d}
    wdl = lambda e, d: {"op": "wdl", "ep": e, "d": d}
    close = lambda e: {"op": "close", "ep": e}
    mclose = lambda e: {"op": "mclose", "ep": e}
    out = []
    # a Write whose response nobody reads for 13 s, then a Read without deadline: it has to wait, not fail at once
    out.append(("read-long-after-a-write-C", [W("C"), P(65), R("C"), P(3)]))
    out.append(("read-long-after-an-answered-write-C", [R("C"), W("C"), W("S"), P(65), R("C"), P(3)]))
    for e in ("C", "S"):
        p = "S" if e == "C" else "C"
        out.append(("deadline-then-two-reads-" + e, [rdl(e, 2), W(p), R(e), P(1), R(e), P(3), P(3)]))
        out.append(("deadline-write-then-read-" + e, [rdl(e, 3), W(e), R(e), P(3), P(3)]))
        out.append(("past-deadline-two-reads-" + e, [rdl(e, -1), R(e), P(1), R(e), P(3)]))
        out.append(("write-deadline-two-big-writes-" + e, [wdl(e, 2), {"op": "stopread", "ep": p}, P(3), P(3), W(e), P(3)]))
        out.append(("close-while-peer-reads-" + e, [R(p), P(1), close(e), P(3)]))
        out.append(("close-while-own-read-" + e, [R(e), P(1), close(e), close(e), P(2)]))
        out.append(("mclose-while-both-read-" + e, [R(e), R(p), P(1), mclose(e), mclose(e), P(3)]))
        out.append(("close-under-back-pressure-" + e, [{"op": "stopread", "ep": p}, P(3), close(e), P(3)]))
        out.append(("peer-close-under-back-pressure-" + e, [{"op": "stopread", "ep": p}, P(3), close(p), P(3)]))
        heavy = {"op": "stopread", "ep": p, "d": 1}
        out.append(("mclose-under-back-pressure-" + e, [heavy, P(3), P(3), P(3), P(3), P(3), mclose(e), P(3)]))
        out.append(("peer-mclose-under-back-pressure-" + e, [heavy, P(3), P(3), P(3), P(3), P(3), mclose(p), P(3)]))
        out.append(("close-under-heavy-back-pressure-" + e, [heavy, P(3), P(3), P(3), P(3), P(3), close(e), P(3)]))
        out.append(("fin-while-both-read-" + e, [R(e), R(p), P(1), {"op": "fin", "ep": "-"}, P(3), W(e), P(2)]))
        out.append(("fin-under-back-pressure-" + e, [{"op": "stopread", "ep": p}, P(3), {"op": "fin", "ep": "-"}, P(3)]))
        out.append(("write-with-unread-backlog-after-peer-stop-" + e, [{"op": "stopread", "ep": e}, P(3), mclose(p), {"op": "stopread", "ep": p}, P(3)]))
        out.append(("fail-then-close-" + e, [R(e), R(p), P(1), {"op": "fail", "ep": "-"}, P(2), close(e), P(3)]))
    return out


def describe(rec, inv):
    if rec["ev"] == "end":
        return ("%s [%s scenario %d]: %d goroutine(s) of the closed endpoints still running 8 s after both ends were shut down%s"
                % (inv, rec["tr"], rec["sc"], rec["leak"], (": " + rec["note"]) if rec["note"] else ""),
                "C15:%s:%s:%s" % (inv, rec["tr"], ",".join(sorted(set(s.split("+")[0] for s in rec["note"].replace("still running: ", "").split(",") if s)))[:120]))
    took = ("never returned (observed until %d ms)" % rec["t"]) if rec["end"] < 0 else ("returned at %d ms (%s)" % (rec["end"], rec["res"]))
    return ("%s [%s scenario %d step %d]: %s at end %s started at %d ms, deadline in force %s: %s"
            % (inv, rec["tr"], rec["sc"], rec["k"], rec["kind"], rec["ep"], rec["start"], ("%d ms" % rec["dl"]) if rec["dl"] >= 0 else "none", took),
            "C15:%s:%s:%s%s" % (inv, rec["tr"], rec["kind"], (":writer-has-unread-backlog" if rec.get("unread") and rec["kind"] in ("write", "bigwrite") else "")
                                     + (":writer-blocked-in-raw-tcp-write" if rec.get("heavy") and rec["tr"] == "tcp" else "")))


def run_driver(ctx, wd, rows, name, race=False, par=12, timeout=3000):
    fin, fout = os.path.join(wd, name + ".in"), os.path.join(wd, name + ".out")
    vlib.write_ndjson(fin, rows)
    rc, log, _ = vlib.go_test("./c15/", "TestLifecycle$", env={"VERIF_IN": fin, "VERIF_OUT": fout, "VERIF_PAR": str(par)}, timeout=timeout, race=race)
    if race and "WARNING: DATA RACE" in log:
        i = log.index("WARNING: DATA RACE")
        rp = ctx.save_replay("race_%s.json" % name, {"log": log[i:i + 6000], "rows": rows[:3]})
        import re
        fr = re.findall(r"github\.com/enfein/mieru/v3/([^\s(]+)\(", log[i:i + 3000])
        ctx.report("data race between concurrent users of a connection:\n" + log[i:i + 1500], rp, "C15:race:%s" % (",".join(fr[:2])))
        return vlib.read_ndjson(fout) if os.path.exists(fout) else []
    if rc != 0 or not os.path.exists(fout):
        raise Inconclusive("lifecycle driver failed:\n" + log[-3000:])
    return vlib.read_ndjson(fout)


def run(ctx):
    ctx.level = "model_checking"
    ctx.coverage["rule"] = ("schedules of 14 steps from TLC simulation plus 34 named schedules, each on TCP and UDP, one in five after 5.5 s of "
                            "idleness; distinct_nontrivial = scenarios containing a close, a failure or a deadline")
    ctx.assumptions += ["real time on a loaded machine: bounds are 1.5 s (deadline), 4 s (local close), 9 s (remote close, failure, Close itself)",
                        "a UDP black hole is not asserted to release operations in the quick tier (the idle timeout is 60 s)",
                        "leak = goroutine carrying the scenario's pprof label 8 s after both muxes were closed"]
    wd = vlib.scratch_dir("verif-c15-")
    try:
        r = vlib.tlc("Lifecycle", "MC_Lifecycle_small", timeout=1200)
        if r.violated or r.error:
            raise Inconclusive("Lifecycle model: %s %s" % (r.violated, r.error))
        ctx.add_tlc(r, "Lifecycle exhaustive (5 steps), DeadlineBounds")
        bad = vlib.tlc("Lifecycle", "MC_Lifecycle_consume", timeout=1200)
        ctx.coverage["model_detects_consumed_deadline"] = bad.violated == "DeadlineBounds"
        if bad.violated != "DeadlineBounds":
            raise Inconclusive("sanity: the consumed-deadline variant should violate DeadlineBounds")
        n = 36 if not ctx.thorough() else 400
        rows = []
        for i, b in enumerate(schedules(ctx, n)):
            rows.append({"id": len(rows), "tr": "tcp" if i % 2 else "udp", "idle": 5500 if i % 5 == 0 else 0, "steps": b})
        for name, steps in named():
            for tr in ("tcp", "udp"):
                rows.append({"id": len(rows), "tr": tr, "idle": 0, "steps": steps, "name": name})
        # situations a schedule on one accepted session cannot reach
        for tr in ("udp", "tcp"):
            rows.append({"id": len(rows), "tr": tr, "idle": 0, "steps": [], "kind": "backlog", "n": 140, "name": "stop-server-with-140-sessions-nobody-accepted"})
        rows.append({"id": len(rows), "tr": "tcp", "idle": 0, "steps": [], "kind": "sibling", "n": 0, "name": "close-idle-session-while-its-sibling-is-stuck-writing"})
        if ctx.thorough():
            for name, steps in named()[:8]:
                rows.append({"id": len(rows), "tr": "udp", "idle": 65000, "steps": steps, "name": name + "-idle65s"})
        ctx.coverage["distinct_nontrivial"] += sum(1 for r_ in rows if r_.get("kind")) + sum(1 for r_ in rows if any(s["op"] in ("close", "mclose", "fail", "fin", "rdl", "wdl") for s in r_["steps"]))
        ctx.sample({"kind": "schedule", "scenario": rows[0]})
        recs = run_driver(ctx, wd, rows, "life", par=16)
        ctx.coverage["evaluations"] += sum(1 for e in recs if e["ev"] == "op")
        if sum(1 for e in recs if e["ev"] == "end") != len(rows):
            raise Inconclusive("driver finished %d of %d scenarios" % (sum(1 for e in recs if e["ev"] == "end"), len(rows)))
        setup_fail = [e for e in recs if e["ev"] == "end" and e["leak"] < 0]
        if setup_fail:
            raise Inconclusive("scenario setup failed: %s" % setup_fail[0]["note"])
        ctx.sample({"kind": "timed operation as logged", "record": next(e for e in recs if e["ev"] == "op" and e["kind"] == "read")})
        path = os.path.join(wd, "life_trace.ndjson")
        vlib.write_ndjson(path, recs)
        vlib.validate_records(ctx, "Trace_Lifecycle", "Trace_Lifecycle", path, PROPS, describe, wd, max_reports=6)
        # the same driver under the race detector (fewer scenarios: it is slow)
        sub = rows[:12] + rows[-40:] if not ctx.thorough() else rows
        rr = run_driver(ctx, wd, sub, "race", race=True, par=16, timeout=3000)
        ctx.coverage["scenarios_under_race_detector"] = sum(1 for e in rr if e["ev"] == "end")
    finally:
        shutil.rmtree(wd, ignore_errors=True)


def replay(ctx, path):
    print(json.load(open(path)))
