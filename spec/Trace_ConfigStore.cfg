SPECIFICATION Spec
INVARIANTS PatchLocal NoCrash Hashed LinksRoundTrip Total
POSTCONDITION TraceAccepted
CHECK_DEADLOCK FALSE
