--------------------------- MODULE MC_HostileSocks ---------------------------
EXTENDS HostileSocks
ASSUME PrintT(<<"TABLE", ToJson([greeting |-> Hostile(Greetings), authreq |-> Hostile(AuthReqs), reply2 |-> Hostile(ShortReplies),
                                 message |-> Hostile(Messages), datagram |-> Hostile(Datagrams)])>>)
=============================================================================
