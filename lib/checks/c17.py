"""C17 - low-entropy encoding is lossless, canonical, and identical on every CPU path.

design spec   spec/LowEntropy.tla: PDEP, PEXT, mask rotation, Encode, Decode (polarity inferred from chunk 0,
              uniform padding incl. the unused selected positions of a final partial chunk), parametric in the
              word width
TLC (i)       reduced width (W = 8: 4 units of 2 bits): RoundTrip, length law, Canonical (ALL byte strings of the
              encoded length), Rejects - exhaustive over all masks of each weight, bodies up to 2 chunks, both
              polarities, a set of rotations
TLC (ii)      full width: the same operators evaluate vectors (boundary lengths, extreme masks, 31 rotations x 4
              modes x 2 bits, mutated encodings by position class); the harness compares the real
              encode/decode (accessors) and mathext.PDEP/PEXT with TLC's results, once on the default path
              (BMI2 assembly on this CPU) and once with GODEBUG=cpu.bmi2=off (portable path); the two paths
              are additionally compared on 10^5-10^7 structured and random pairs by digest
"""
import json
import os
import random
import shutil

import vlib
from vlib import Inconclusive

ROTS = [0] + list(range(1, 16)) + [16 * k for k in range(1, 16)]


def bits(v, n):
    return [(v >> i) & 1 for i in range(n)]


def half_mask(rnd, ones, kind):
    if kind == "low":
        return (1 << ones) - 1
    if kind == "high":
        return ((1 << ones) - 1) << (32 - ones)
    if kind == "alt":
        m = 0x55555555
        b = 1
        while bin(m).count("1") < ones:
            m |= 1 << b
            b += 2
        return m
    pos = rnd.sample(range(32), ones)
    return sum(1 << p for p in pos)


def rot_amount(rot, i):
    if rot == 0 or i == 0:
        return 0
    return -((i % 64) * rot) % 64 if rot <= 15 else ((i % 64) * (rot // 16)) % 64


def chunk_mask(half, rot, i):
    m = (half << 32) | half
    k = rot_amount(rot, i)
    return ((m << k) | (m >> (64 - k))) & ((1 << 64) - 1) if k else m


def make_vectors(seed, thorough):
    rnd = random.Random(seed)
    vec = {"bitops": [], "encode": [], "decode": []}
    xs = [0, 1, (1 << 64) - 1, 1 << 63, 0x5555555555555555, 0x0f0f0f0f0f0f0f0f, 0x8000000000000001]
    for x in xs:
        for m in xs:
            vec["bitops"].append({"x": bits(x, 64), "mask": bits(m, 64)})
    for w in (1, 4, 8, 31, 32, 33, 63, 64):          # single-run masks at several offsets, x with bits above the run
        for k in (0, 1, 17, 64 - w):
            if k + w <= 64 and k >= 0:
                vec["bitops"].append({"x": bits(rnd.getrandbits(64) | (1 << 63) | (1 << w % 64), 64), "mask": bits(((1 << w) - 1) << k, 64)})
    for _ in range(60 if not thorough else 600):
        vec["bitops"].append({"x": bits(rnd.getrandbits(64), 64), "mask": bits(rnd.getrandbits(64), 64)})
    enc_meta = []
    for mode in (1, 2, 3, 4):
        c = mode + 3
        ones = 4 * c
        lens = [1, c - 1, c, c + 1, 2 * c, 2 * c + 1, 3 * c - 1, 5 * c + 2]
        for ri, rot in enumerate(ROTS if thorough else [0, 1, 7, 15, 16, 112, 240, ROTS[(mode * 5) % 31]]):
            for pad in (0, 1):
                n = lens[(ri + pad) % len(lens)]
                kind = ["low", "high", "alt", "rand"][(ri + mode) % 4]
                half = half_mask(rnd, ones, kind)
                body = [rnd.randrange(256) for _ in range(n)]
                vec["encode"].append({"body": body, "mode": mode, "half": bits(half, 32), "rot": rot, "pad": pad})
                enc_meta.append((mode, half, rot, pad, n))
        for n in ([64, 200] if not thorough else [64, 200, 700]):       # longer bodies: many chunks, rotation wraps around
            half = half_mask(rnd, ones, "rand")
            vec["encode"].append({"body": [rnd.randrange(256) for _ in range(n)], "mode": mode, "half": bits(half, 32),
                                  "rot": rnd.choice(ROTS[1:]), "pad": rnd.randrange(2)})
            enc_meta.append((mode, half, vec["encode"][-1]["rot"], vec["encode"][-1]["pad"], n))
    return vec, enc_meta


def python_encode(body, mode, half, rot, pad):
    """only used to BUILD mutated inputs for the decoder (position classes); verdicts come from TLC"""
    c = mode + 3
    out = []
    for i in range(0, len(body), c):
        part = body[i:i + c]
        src = int.from_bytes(bytes(part), "big")
        m = chunk_mask(half, rot, i // c)
        chunk, used = 0, 0
        for b in range(64):
            if (m >> b) & 1 and used < len(part) * 8:
                chunk |= ((src >> used) & 1) << b
                used += 1
            elif pad:
                chunk |= 1 << b
        out += list(chunk.to_bytes(8, "big"))
    return out


def add_decode_vectors(vec, enc_meta, seed, thorough):
    rnd = random.Random(seed + 1)
    for vi, (mode, half, rot, pad, n) in enumerate(enc_meta):
        body = vec["encode"][vi]["body"]
        enc = python_encode(body, mode, half, rot, pad)
        c = mode + 3
        nch = len(enc) // 8
        base = {"enc": enc, "n": n, "mode": mode, "half": bits(half, 32), "rot": rot}
        vec["decode"].append(dict(base))                                     # canonical
        classes = []
        last = nch - 1
        part = n - last * c
        m_last = chunk_mask(half, rot, last)
        sel = [b for b in range(64) if (m_last >> b) & 1]
        if part < c:
            classes.append(("unused-selected-last", last, sel[part * 8:]))    # selected positions beyond the data of a partial chunk
        classes.append(("padding-last", last, [b for b in range(64) if not (m_last >> b) & 1]))
        m0 = chunk_mask(half, rot, 0)
        classes.append(("padding-first", 0, [b for b in range(64) if not (m0 >> b) & 1]))
        classes.append(("data-last", last, sel[:min(part, c) * 8]))
        if nch > 2:
            mid = nch // 2
            mm = chunk_mask(half, rot, mid)
            classes.append(("padding-middle", mid, [b for b in range(64) if not (mm >> b) & 1]))
        for name, ch, positions in classes:
            if not positions:
                continue
            for b in ({positions[0], positions[-1], rnd.choice(positions)} if not thorough else set(positions[:6] + positions[-6:])):
                e2 = list(enc)
                byte = ch * 8 + (7 - b // 8)
                e2[byte] ^= 1 << (b % 8)
                vec["decode"].append(dict(base, enc=e2))
        # whole chunk with the opposite polarity (mixed padding across chunks), wrong lengths, wrong weight, bad rotation / mode
        if nch >= 2:
            other = python_encode(body, mode, half, rot, 1 - pad)
            vec["decode"].append(dict(base, enc=enc[:8] + other[8:]))
        vec["decode"].append(dict(base, n=n + c))
        vec["decode"].append(dict(base, n=max(1, n - c)) if n > c else dict(base, n=n + 2 * c))
        vec["decode"].append(dict(base, enc=enc + [0] * 8))
        vec["decode"].append(dict(base, half=bits(half ^ (1 << rnd.randrange(32)), 32)))
        vec["decode"].append(dict(base, rot=17 if vi % 2 else 250))
        if vi % 3 == 0:
            vec["decode"].append(dict(base, mode=(mode % 4) + 1))
    return vec


def run(ctx):
    ctx.level = "model_checking"
    ctx.coverage["rule"] = ("(i) exhaustive at reduced width; (ii) full-width vectors evaluated by TLC and compared with the real "
                            "routines on both CPU paths. distinct_nontrivial = full-width vectors (bit-op pairs, encodings, decoder "
                            "inputs incl. one mutated bit per position class)")
    ctx.assumptions += ["the 2^64-per-chunk space is not exhausted at full width: small-width exhaustive proof of the algorithm + "
                        "full-width agreement of code and specification on generated vectors",
                        "GODEBUG=cpu.bmi2=off selects the portable PDEP/PEXT path of pkg/mathext"]
    wd = vlib.scratch_dir("verif-c17-")
    try:
        cfg = "MC_LowEntropy" if not ctx.thorough() else "MC_LowEntropy_full"
        res = vlib.tlc("MC_LowEntropy", cfg, timeout=3000)
        if res.error or res.violated:
            raise Inconclusive("reduced-width proof failed on the MODEL: %s %s\n%s" % (res.violated, res.error, res.out[-1500:]))
        ctx.coverage["states"] += 1
        ctx.coverage.setdefault("tlc_runs", []).append({"what": "LowEntropy RoundTrip/Canonical/Rejects exhaustive at W=8 (%s)" % cfg,
                                                       "wall_s": round(res.wall, 1)})
        vec, meta = make_vectors(ctx.seed, ctx.thorough())
        add_decode_vectors(vec, meta, ctx.seed, ctx.thorough())
        vin = os.path.join(wd, "vectors.json")
        json.dump(vec, open(vin, "w"))
        orc = vlib.tlc("LowEntropyOracle", timeout=3000, tags=("ORACLE",), env={"VERIF_VECTORS": vin}, heap="12g")
        if orc.error or orc.violated or not orc.prints:
            raise Inconclusive("oracle evaluation failed: %s %s\n%s" % (orc.violated, orc.error, orc.out[-1500:]))
        oracle = orc.prints[0][1]
        nvec = len(vec["bitops"]) + len(vec["encode"]) + len(vec["decode"])
        ctx.coverage["transitions"] += nvec
        ctx.coverage["distinct_nontrivial"] += nvec
        ctx.coverage.setdefault("tlc_runs", []).append({"what": "LowEntropyOracle: %d bit-op, %d encode, %d decode vectors at W=64"
                                                       % (len(vec["bitops"]), len(vec["encode"]), len(vec["decode"])), "wall_s": round(orc.wall, 1)})
        oin = os.path.join(wd, "oracle.json")
        json.dump(oracle, open(oin, "w"))
        accepted = sum(1 for d in oracle["decode"] if d["ok"])
        ctx.coverage["decoder_inputs"] = {"accepted_by_spec": accepted, "rejected_by_spec": len(oracle["decode"]) - accepted}
        ctx.sample({"kind": "encode vector and TLC's expected encoding", "vector": {k: v for k, v in vec["encode"][3].items() if k != "half"},
                    "expected": oracle["encode"][3]})
        digests = {}
        for path, env in (("bmi2", {}), ("portable", {"GODEBUG": "cpu.bmi2=off"})):
            out = os.path.join(wd, "real_%s.ndjson" % path)
            e = {"VERIF_IN": vin, "VERIF_ORACLE": oin, "VERIF_OUT": out}
            e.update(env)
            rc, log, _ = vlib.go_test("./c17/", "TestVectors$", env=e, timeout=1200)
            if rc != 0 or not os.path.exists(out):
                raise Inconclusive("driver TestVectors (%s) failed:\n%s" % (path, log[-3000:]))
            rows = vlib.read_ndjson(out)
            summ = [r for r in rows if r.get("summary")][0]
            ctx.coverage["evaluations"] += summ["evaluations"]
            for m in [r for r in rows if not r.get("summary")][:5]:
                rp = ctx.save_replay("vector_%s_%s.json" % (path, m["kind"]), m)
                kind = m["kind"]
                detail = {k: v for k, v in m.items() if k not in ("vec", "real", "model")}
                sig = "C17:%s:%s" % (kind, path if kind == "bitops" else "codec")
                ctx.report("real %s disagrees with the specification on the %s path: %s" % (kind, path, detail), rp, sig)
            dout = os.path.join(wd, "digest_%s.ndjson" % path)
            e = {"VERIF_OUT": dout, "VERIF_SEED": ctx.seed, "VERIF_N": 200000 if not ctx.thorough() else 20000000}
            e.update(env)
            rc, log, _ = vlib.go_test("./c17/", "TestBitDigest$", env=e, timeout=2400)
            if rc != 0:
                raise Inconclusive("driver TestBitDigest (%s) failed:\n%s" % (path, log[-3000:]))
            digests[path] = vlib.read_ndjson(dout)
            ctx.coverage["evaluations"] += sum(g["count"] for g in digests[path]) * 2
        for a, b in zip(digests["bmi2"], digests["portable"]):
            if a != b:
                rp = ctx.save_replay("digest_%s.json" % a["group"].replace(" ", "_"), {"bmi2": a, "portable": b})
                ctx.report("hardware and portable PDEP/PEXT disagree on group '%s'" % a["group"], rp, "C17:paths-differ")
        ctx.coverage["differential_pairs_per_path"] = sum(g["count"] for g in digests["bmi2"])
        ctx.coverage["traces_validated_against_impl"] += nvec * 2
    finally:
        shutil.rmtree(wd, ignore_errors=True)


def replay(ctx, path):
    print(json.load(open(path)))
