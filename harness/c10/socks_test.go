package c10

import (
	"bufio"
	"context"
	"encoding/json"
	"fmt"
	"io"
	"math/rand"
	"net"
	"os"
	"strings"
	"sync"
	"testing"
	"time"

	apicommon "github.com/enfein/mieru/v3/apis/common"
	"github.com/enfein/mieru/v3/apis/constant"
	"github.com/enfein/mieru/v3/pkg/appctl/appctlpb"
	"github.com/enfein/mieru/v3/pkg/socks5"
	"google.golang.org/protobuf/proto"
)

// msg is one member of the language of spec/HostileSocks.tla.
type msg struct {
	K     string `json:"k"`
	Ver   int    `json:"ver"`
	Nm    int    `json:"nm"`
	Have  string `json:"have"`
	Ulen  int    `json:"ulen"`
	Uhave string `json:"uhave"`
	Plen  int    `json:"plen"`
	Phave string `json:"phave"`
	Code  int    `json:"code"`
	Cut   string `json:"cut"`
	Extra string `json:"extra"`
	Rsv   int    `json:"rsv"`
	Atyp  int    `json:"atyp"`
	Addr  string `json:"addr"`
	Tail  string `json:"tail"`
	Frag  int    `json:"frag"`
	Data  int    `json:"data"`
}

type sunit struct {
	ID    int    `json:"id"`
	World string `json:"world"`
	M     msg    `json:"m"`
}

type sevent struct {
	Ev    string `json:"ev"` // S | R | V | E
	ID    int    `json:"id"`
	World string `json:"world"`
	M     msg    `json:"m"`
	Ok    bool   `json:"ok"`
	Note  string `json:"note"`
	Hex   string `json:"hex"`
}

func semit(e sevent) {
	outMu.Lock()
	defer outMu.Unlock()
	b, _ := json.Marshal(&e)
	outF.Write(append(b, '\n'))
}

func addrBytes(atyp int, form string, r *rand.Rand) []byte {
	rnd := func(n int) []byte { b := make([]byte, n); r.Read(b); return b }
	switch atyp {
	case 3:
		switch form {
		case "exact":
			return append([]byte{11}, []byte("example.com")...)
		case "short":
			return append([]byte{20}, []byte("short")...)
		case "dom0":
			return []byte{0}
		case "dom255":
			return append([]byte{255}, []byte(strings.Repeat("a", 255))...)
		case "domBad":
			return append([]byte{10}, []byte{0, 255, ' ', '/', '\n', '.', '.', 0x80, ':', '%'}...)
		}
		return nil
	case 4:
		switch form {
		case "exact":
			return net.ParseIP("::1").To16()
		case "short":
			return rnd(7)
		}
		return nil
	default: // 1 and the undefined types
		switch form {
		case "exact":
			return []byte{127, 0, 0, 1}
		case "short":
			return rnd(2)
		}
		return nil
	}
}

func cutAt(b []byte, fixed, addrLen int, cut string) []byte {
	var n int
	switch cut {
	case "none":
		return b
	case "empty":
		n = 0
	case "afterVer":
		n = 1
	case "afterTwo":
		n = 2
	case "afterRsv":
		n = fixed - 1
	case "afterAtyp":
		n = fixed
	case "midAddr":
		n = fixed + (addrLen+1)/2
	case "beforePort":
		n = fixed + addrLen
	case "midPort":
		n = fixed + addrLen + 1
	}
	if n > len(b) {
		n = len(b)
	}
	return b[:n]
}

// bytesOf concretises a message; port is the port field (the driver points it at a live listener where that matters).
func bytesOf(m msg, port int, r *rand.Rand) []byte {
	rnd := func(n int) []byte { b := make([]byte, n); r.Read(b); return b }
	switch m.K {
	case "greeting":
		b := []byte{byte(m.Ver), byte(m.Nm)}
		n := m.Nm
		switch m.Have {
		case "short":
			n = m.Nm / 2
		case "none":
			n = 0
		case "extra":
			n = m.Nm + 5
		}
		for i := 0; i < n; i++ {
			b = append(b, byte(i%3)) // 0, 1, 2: no-auth is among them
		}
		return b
	case "authreq":
		b := []byte{byte(m.Ver), byte(m.Ulen)}
		u := m.Ulen
		if m.Uhave == "short" {
			u = m.Ulen / 2
		}
		b = append(b, []byte(strings.Repeat("u", u))...)
		if m.Uhave == "short" {
			return b
		}
		if m.Phave == "none" {
			return b
		}
		b = append(b, byte(m.Plen))
		p := m.Plen
		if m.Phave == "short" {
			p = m.Plen / 2
		}
		return append(b, []byte(strings.Repeat("p", p))...)
	case "reply2":
		b := []byte{byte(m.Ver), byte(m.Code)}
		switch m.Cut {
		case "one":
			b = b[:1]
		case "zero":
			b = nil
		}
		if m.Extra == "garbage" {
			b = append(b, rnd(40)...)
		}
		return b
	case "message":
		a := addrBytes(m.Atyp, m.Addr, r)
		b := append([]byte{byte(m.Ver), byte(m.Code), byte(m.Rsv), byte(m.Atyp)}, a...)
		b = append(b, byte(port>>8), byte(port))
		b = cutAt(b, 4, len(a), m.Cut)
		if m.Tail == "garbage" {
			b = append(b, rnd(50)...)
		}
		return b
	case "datagram":
		a := addrBytes(m.Atyp, m.Addr, r)
		b := append([]byte{byte(m.Rsv >> 8), byte(m.Rsv), byte(m.Frag), byte(m.Atyp)}, a...)
		b = append(b, byte(port>>8), byte(port))
		b = cutAt(b, 4, len(a), m.Cut)
		if m.Cut == "none" {
			b = append(b, rnd(m.Data)...)
		}
		return b
	}
	return nil
}

type userConn struct {
	net.Conn
	user string
}

func (u *userConn) UserName() string { return u.user }

type pipeDialer struct{ mk func() net.Conn }

func (d *pipeDialer) DialContext(ctx context.Context) (net.Conn, error) { return d.mk(), nil }

// socksWorld holds long-lived real endpoints: an echo destination, a UDP sink, a server-placement Server and a client-placement
// Server chained to it.
type socksWorld struct {
	r        *rand.Rand
	echo     net.Listener
	sink     *net.UDPConn
	server   *socks5.Server
	authSrv  *socks5.Server // server placement with credentials configured
	client   *socks5.Server
	hostile  net.Listener // hostile proxy / egress proxy on loopback
	reply    chan []byte  // what the hostile listener answers next (after reading once)
	egress   *socks5.Server
	hostileU *net.UDPConn
	dgramSrv *socks5.Server // server placement, datagram-mode UDP association
}

func newSocksWorld(seed int64) *socksWorld {
	w := &socksWorld{r: rand.New(rand.NewSource(seed)), reply: make(chan []byte, 4)}
	w.echo, _ = net.Listen("tcp", "127.0.0.1:0")
	go func() {
		for {
			c, err := w.echo.Accept()
			if err != nil {
				return
			}
			go func() { io.Copy(c, c); c.Close() }()
		}
	}()
	w.sink, _ = net.ListenUDP("udp", &net.UDPAddr{IP: net.IPv4(127, 0, 0, 1)})
	go func() {
		buf := make([]byte, 65536)
		for {
			n, a, err := w.sink.ReadFromUDP(buf)
			if err != nil {
				return
			}
			w.sink.WriteToUDP(buf[:n], a)
		}
	}()
	w.server, _ = socks5.New(&socks5.Config{AllowLoopbackDestination: true, HandshakeTimeout: 300 * time.Millisecond})
	ac := &socks5.Config{AllowLoopbackDestination: true, HandshakeTimeout: 300 * time.Millisecond}
	ac.AuthOpts.IngressCredentials = []socks5.Credential{{User: "u", Password: "p"}}
	w.authSrv, _ = socks5.New(ac)
	cc := &socks5.Config{HandshakeTimeout: 300 * time.Millisecond, UseProxy: true}
	cc.ProxyDialer = &pipeDialer{mk: func() net.Conn {
		a, b := net.Pipe()
		go w.server.ServeConn(&userConn{Conn: b, user: "chain"})
		return a
	}}
	w.client, _ = socks5.New(cc)
	// a hostile TCP endpoint: reads whatever arrives, answers with the queued bytes after each read, closes when told
	w.hostile, _ = net.Listen("tcp", "127.0.0.1:0")
	go func() {
		for {
			c, err := w.hostile.Accept()
			if err != nil {
				return
			}
			go func(c net.Conn) {
				defer c.Close()
				buf := make([]byte, 4096)
				var held []byte
				for {
					c.SetReadDeadline(time.Now().Add(2 * time.Second))
					if _, err := c.Read(buf); err != nil {
						return
					}
					rep := held
					held = nil
					if rep == nil {
						select {
						case rep = <-w.reply:
						case <-time.After(time.Second):
							return
						}
					}
					if rep == nil {
						return
					}
					c.Write(rep)
					// when nothing is to follow, the connection goes away shortly after the last answer (not only at the
					// next read, which may never come)
					select {
					case nx := <-w.reply:
						if nx == nil {
							time.Sleep(15 * time.Millisecond)
							return
						}
						held = nx
					default:
					}
				}
			}(c)
		}
	}()
	hp := w.hostile.Addr().(*net.TCPAddr).Port
	eg := &appctlpb.Egress{
		Proxies: []*appctlpb.EgressProxy{{Name: proto.String("p1"), Protocol: appctlpb.ProxyProtocol_SOCKS5_PROXY_PROTOCOL.Enum(), Host: proto.String("127.0.0.1"), Port: proto.Int32(int32(hp))}},
		Rules:   []*appctlpb.EgressRule{{IpRanges: []string{"*"}, DomainNames: []string{"*"}, Action: appctlpb.EgressAction_PROXY.Enum(), ProxyNames: []string{"p1"}}},
	}
	w.egress, _ = socks5.New(&socks5.Config{AllowLoopbackDestination: true, HandshakeTimeout: 300 * time.Millisecond, Egress: eg})
	w.hostileU, _ = net.ListenUDP("udp4", &net.UDPAddr{IP: net.IPv4(127, 0, 0, 1)})
	w.dgramSrv, _ = socks5.New(&socks5.Config{AllowLoopbackDestination: true, HandshakeTimeout: 300 * time.Millisecond, UDPAssociateMode: socks5.UDPAssociateModeDatagram})
	return w
}

func readSome(c net.Conn, d time.Duration) []byte {
	var out []byte
	buf := make([]byte, 4096)
	c.SetReadDeadline(time.Now().Add(d))
	for {
		n, err := c.Read(buf)
		out = append(out, buf[:n]...)
		if err != nil || len(out) > 1<<16 {
			return out
		}
		c.SetReadDeadline(time.Now().Add(50 * time.Millisecond))
	}
}

func (w *socksWorld) serve(srv *socks5.Server) (cli net.Conn, done chan struct{}) {
	a, b := net.Pipe()
	done = make(chan struct{})
	go func() { srv.ServeConn(&userConn{Conn: b, user: "victim"}); close(done) }()
	return a, done
}

func finish(cli net.Conn, done chan struct{}) string {
	cli.Close()
	select {
	case <-done:
		return ""
	case <-time.After(3 * time.Second):
		return "ServeConn did not return within 3 s of the connection closing"
	}
}

// honestConnect: greeting, CONNECT to the echo listener, one echo.  The handshake timeouts of the servers are short (they bound the
// hostile units); on a loaded machine an honest attempt can miss one, so the victim counts as refused only if three attempts fail.
func (w *socksWorld) honestConnect(srv *socks5.Server) (ok bool, note string) {
	for try := 0; try < 3; try++ {
		if ok, note = w.honestConnectOnce(srv); ok {
			return true, ""
		}
		time.Sleep(200 * time.Millisecond)
	}
	return false, note
}

func (w *socksWorld) honestConnectOnce(srv *socks5.Server) (bool, string) {
	cli, done := w.serve(srv)
	defer finish(cli, done)
	go cli.Write([]byte{5, 1, 0})
	rep := make([]byte, 2)
	cli.SetReadDeadline(time.Now().Add(2 * time.Second))
	if _, err := io.ReadFull(cli, rep); err != nil || rep[1] != 0 {
		return false, fmt.Sprintf("method reply %v %v", rep, err)
	}
	port := w.echo.Addr().(*net.TCPAddr).Port
	go cli.Write([]byte{5, 1, 0, 1, 127, 0, 0, 1, byte(port >> 8), byte(port)})
	r10 := make([]byte, 10)
	cli.SetReadDeadline(time.Now().Add(2 * time.Second))
	if _, err := io.ReadFull(cli, r10); err != nil || r10[1] != 0 {
		return false, fmt.Sprintf("connect reply %v %v", r10, err)
	}
	go cli.Write([]byte("victim-ping"))
	got := make([]byte, 11)
	cli.SetReadDeadline(time.Now().Add(2 * time.Second))
	if _, err := io.ReadFull(cli, got); err != nil || string(got) != "victim-ping" {
		return false, fmt.Sprintf("echo %q %v", got, err)
	}
	return true, ""
}

func (w *socksWorld) run(u *sunit) (note string) {
	m := u.M
	echoPort := w.echo.Addr().(*net.TCPAddr).Port
	sinkPort := w.sink.LocalAddr().(*net.UDPAddr).Port
	data := bytesOf(m, echoPort, w.r)
	e := sevent{Ev: "S", ID: u.ID, World: u.World, M: m, Hex: hexHead(data)}
	switch u.World {
	case "user-to-server", "user-to-client":
		srv := w.server
		if u.World == "user-to-client" {
			srv = w.client
		}
		if m.K == "authreq" {
			srv = w.authSrv
		}
		semit(e)
		cli, done := w.serve(srv)
		switch m.K {
		case "greeting":
			go cli.Write(data)
		case "authreq":
			go cli.Write([]byte{5, 1, 2})
			readSome(cli, 300*time.Millisecond)
			go cli.Write(data)
		default:
			go cli.Write([]byte{5, 1, 0})
			readSome(cli, 300*time.Millisecond)
			go cli.Write(data)
		}
		rep := readSome(cli, 400*time.Millisecond)
		note = fmt.Sprintf("reply %d bytes", len(rep))
		if s := finish(cli, done); s != "" {
			note += "; " + s
		}
	case "tunnel-datagram-to-server":
		data = bytesOf(m, sinkPort, w.r)
		e.Hex = hexHead(data)
		semit(e)
		cli, done := w.serve(w.server)
		go cli.Write([]byte{5, 1, 0})
		readSome(cli, 300*time.Millisecond)
		go cli.Write([]byte{5, 3, 0, 1, 0, 0, 0, 0, 0, 0})
		r10 := make([]byte, 10)
		cli.SetReadDeadline(time.Now().Add(2 * time.Second))
		if _, err := io.ReadFull(cli, r10); err != nil || r10[1] != 0 {
			note = fmt.Sprintf("associate failed %v %v", r10, err)
			finish(cli, done)
			return
		}
		cli.SetReadDeadline(time.Time{})
		cli.SetWriteDeadline(time.Now().Add(5 * time.Second))
		tun := apicommon.NewPacketOverStreamTunnel(cli)
		tun.Write(data)
		// then an honest datagram on the same association: it must still be relayed and answered
		hd := append([]byte{0, 0, 0, 1, 127, 0, 0, 1, byte(sinkPort >> 8), byte(sinkPort)}, []byte("after-hostile")...)
		tun.Write(hd)
		got := make(chan int, 1)
		go func() {
			buf := make([]byte, 65536)
			for {
				n, err := tun.Read(buf)
				if err != nil {
					got <- -1
					return
				}
				if strings.HasSuffix(string(buf[:n]), "after-hostile") {
					got <- n
					return
				}
			}
		}()
		select {
		case n := <-got:
			note = fmt.Sprintf("honest datagram on the same association afterwards: %d", n)
		case <-time.After(700 * time.Millisecond):
			note = "honest datagram after it not answered"
		}
		if s := finish(cli, done); s != "" {
			note += "; " + s
		}
	case "datagram-to-relay", "user-datagram-to-client":
		// a UDP association whose relay socket takes datagrams straight from the network: datagram mode on a server-placement
		// Server, or the client-placement Server of the chain (its socket feeds the tunnel to the real server behind it)
		data = bytesOf(m, sinkPort, w.r)
		e.Hex = hexHead(data)
		semit(e)
		srv := w.dgramSrv
		if u.World == "user-datagram-to-client" {
			srv = w.client
		}
		cli, done := w.serve(srv)
		go cli.Write([]byte{5, 1, 0})
		readSome(cli, 300*time.Millisecond)
		go cli.Write([]byte{5, 3, 0, 1, 0, 0, 0, 0, 0, 0})
		r10 := make([]byte, 10)
		cli.SetReadDeadline(time.Now().Add(2 * time.Second))
		if _, err := io.ReadFull(cli, r10); err != nil || r10[1] != 0 {
			note = fmt.Sprintf("associate failed %v %v", r10, err)
			finish(cli, done)
			return
		}
		cli.SetReadDeadline(time.Time{})
		relay := &net.UDPAddr{IP: net.IPv4(127, 0, 0, 1), Port: int(r10[8])<<8 | int(r10[9])}
		uc, err := net.ListenUDP("udp4", &net.UDPAddr{IP: net.IPv4(127, 0, 0, 1)})
		if err != nil {
			finish(cli, done)
			return "listen: " + err.Error()
		}
		hd := append([]byte{0, 0, 0, 1, 127, 0, 0, 1, byte(sinkPort >> 8), byte(sinkPort)}, []byte("before-hostile")...)
		uc.WriteToUDP(hd, relay) // the relay learns the user's address from an honest datagram
		uc.WriteToUDP(data, relay)
		copy(hd[10:], []byte("after--hostile"))
		uc.WriteToUDP(hd, relay)
		got := 0
		buf := make([]byte, 65536)
		for i := 0; i < 2; i++ {
			uc.SetReadDeadline(time.Now().Add(500 * time.Millisecond))
			n, _, err := uc.ReadFromUDP(buf)
			if err != nil {
				break
			}
			if strings.HasSuffix(string(buf[:n]), "-hostile") {
				got++
			}
		}
		uc.Close()
		note = fmt.Sprintf("honest datagrams around it answered: %d of 2", got)
		if s := finish(cli, done); s != "" {
			note += "; " + s
		}
	case "egress-udp-churn":
		// many short-lived UDP associations through the egress proxy, each torn down from all sides at once: the relay loop's
		// goroutines fail at the same moment with errors of different kinds
		semit(e)
		n := 0
		for i := 0; i < 300; i++ {
			for len(w.reply) > 0 {
				<-w.reply
			}
			hp := w.hostileU.LocalAddr().(*net.UDPAddr).Port
			w.reply <- []byte{5, 0}
			// success, followed on the control connection by a byte nobody asked for: the relay's monitor takes any traffic there
			// as the end of the association and closes both data paths at once
			w.reply <- []byte{5, 0, 0, 1, 127, 0, 0, 1, byte(hp >> 8), byte(hp), byte(i)}
			w.reply <- nil
			cli, done := w.serve(w.egress)
			go func() {
				cli.Write([]byte{5, 1, 0})
				time.Sleep(5 * time.Millisecond)
				cli.Write([]byte{5, 3, 0, 1, 0, 0, 0, 0, 0, 0})
			}()
			rep := readSome(cli, 60*time.Millisecond)
			if len(rep) >= 12 {
				n++
				tun := apicommon.NewPacketOverStreamTunnel(cli)
				go tun.Write(append([]byte{0, 0, 0, 1, 127, 0, 0, 1, byte(sinkPort >> 8), byte(sinkPort)}, []byte("churn")...))
				time.Sleep(time.Duration(i%4) * time.Millisecond)
			}
			finish(cli, done)
		}
		note = fmt.Sprintf("associations established: %d of 300", n)
	case "proxy-to-client", "egress-to-server":
		// the real endpoint talks to the hostile TCP endpoint and has to digest what it answers
		semit(e)
		var srv *socks5.Server
		if u.World == "egress-to-server" {
			srv = w.egress
		} else {
			hp := w.hostile.Addr().String()
			cc := &socks5.Config{HandshakeTimeout: 300 * time.Millisecond, UseProxy: true}
			cc.ProxyDialer = &pipeDialer{mk: func() net.Conn { c, _ := net.Dial("tcp", hp); return c }}
			srv, _ = socks5.New(cc)
		}
		for len(w.reply) > 0 {
			<-w.reply
		}
		cmd := byte(1 + 2*(u.ID%2)) // CONNECT and UDP ASSOCIATE alternate
		if m.K == "reply2" {
			w.reply <- data // answer to the method greeting
			w.reply <- nil
		} else {
			w.reply <- []byte{5, 0} // honest method selection, then the hostile response to the request
			w.reply <- data
			w.reply <- nil
		}
		cli, done := w.serve(srv)
		go func() {
			cli.Write([]byte{5, 1, 0})
			time.Sleep(30 * time.Millisecond)
			cli.Write([]byte{5, cmd, 0, 1, 127, 0, 0, 1, byte(echoPort >> 8), byte(echoPort)})
		}()
		rep := readSome(cli, 500*time.Millisecond)
		note = fmt.Sprintf("user saw %d bytes", len(rep))
		if s := finish(cli, done); s != "" {
			note += "; " + s
		}
	case "proxy-to-dialer":
		semit(e)
		for len(w.reply) > 0 {
			<-w.reply
		}
		cmd := byte(1 + 2*(u.ID%2))
		c := &socks5.Client{Host: w.hostile.Addr().String(), CmdType: cmd, Timeout: 800 * time.Millisecond}
		if u.ID%3 == 0 {
			c.Credential = &socks5.Credential{User: "u", Password: "p"}
		}
		switch {
		case m.K == "reply2" && u.ID%2 == 0:
			w.reply <- data
			w.reply <- nil
		case m.K == "reply2":
			w.reply <- []byte{5, map[bool]byte{true: 2, false: 0}[c.Credential != nil]}
			w.reply <- data // as the authentication status
			w.reply <- nil
		default:
			w.reply <- []byte{5, map[bool]byte{true: 2, false: 0}[c.Credential != nil]}
			if c.Credential != nil {
				w.reply <- []byte{1, 0}
			}
			w.reply <- data
			w.reply <- nil
		}
		conn, uc, ua, err := socks5.DialSocks5Proxy(c)("tcp", fmt.Sprintf("127.0.0.1:%d", echoPort))
		note = fmt.Sprintf("dial returned err=%v udp=%v", err != nil, ua != nil)
		if conn != nil {
			conn.Close()
		}
		if uc != nil {
			uc.Close()
		}
	case "datagram-to-transceiver":
		data = bytesOf(m, sinkPort, w.r)
		e.Hex = hexHead(data)
		semit(e)
		lc, err := net.ListenUDP("udp4", &net.UDPAddr{IP: net.IPv4(127, 0, 0, 1)})
		if err != nil {
			return "listen: " + err.Error()
		}
		defer lc.Close()
		hu := w.hostileU
		go func() {
			buf := make([]byte, 2048)
			hu.SetReadDeadline(time.Now().Add(time.Second))
			_, a, err := hu.ReadFromUDP(buf)
			if err == nil {
				hu.WriteToUDP(data, a)
			}
		}()
		lc.SetReadDeadline(time.Now().Add(time.Second))
		out, err := socks5.TransceiveUDPPacket(lc, hu.LocalAddr().(*net.UDPAddr), &net.UDPAddr{IP: net.IPv4(127, 0, 0, 1), Port: sinkPort}, []byte("q"))
		note = fmt.Sprintf("transceive returned %d bytes err=%v", len(out), err != nil)
	default:
		note = "unknown world"
	}
	return note
}

func TestHostileSocks(t *testing.T) {
	in := os.Getenv("VERIF_IN")
	if in == "" {
		t.Skip("VERIF_IN not set")
	}
	f, err := os.Open(in)
	if err != nil {
		t.Fatal(err)
	}
	defer f.Close()
	outF, err = os.OpenFile(os.Getenv("VERIF_OUT"), os.O_CREATE|os.O_WRONLY|os.O_APPEND, 0o644)
	if err != nil {
		t.Fatal(err)
	}
	defer outF.Close()
	_ = constant.Socks5Version
	par := 8
	if v := os.Getenv("VERIF_PAR"); v != "" {
		fmt.Sscanf(v, "%d", &par)
	}
	sc := bufio.NewScanner(f)
	sc.Buffer(make([]byte, 1<<20), 1<<24)
	var units []sunit
	for sc.Scan() {
		line := strings.TrimSpace(sc.Text())
		if line == "" {
			continue
		}
		var u sunit
		if err := json.Unmarshal([]byte(line), &u); err != nil {
			t.Fatal(err)
		}
		units = append(units, u)
	}
	// one set of real endpoints per worker; a worker handles its units one after the other
	ch := make(chan sunit)
	var wg sync.WaitGroup
	worlds := make([]*socksWorld, par)
	for k := 0; k < par; k++ {
		worlds[k] = newSocksWorld(int64(7 + k))
		wg.Add(1)
		go func(w *socksWorld) {
			defer wg.Done()
			n := 0
			for u := range ch {
				// a unit that does not come back (a peer of the driver blocked for good) must not stop the run: it is recorded
				// and the worker goes on with fresh endpoints
				res := make(chan string, 1)
				go func(w *socksWorld, u sunit) { res <- w.run(&u) }(w, u)
				var note string
				select {
				case note = <-res:
				case <-time.After(25 * time.Second):
					note = "unit did not return within 25 s"
					w = newSocksWorld(int64(1000 + u.ID))
				}
				semit(sevent{Ev: "R", ID: u.ID, World: u.World, M: u.M, Ok: !strings.Contains(note, "did not return"), Note: note})
				n++
				if n%10 == 0 {
					srv := w.server
					if u.World == "user-to-client" {
						srv = w.client
					}
					ok, vn := w.honestConnect(srv)
					semit(sevent{Ev: "V", ID: u.ID, World: u.World, M: u.M, Ok: ok, Note: vn})
				}
			}
		}(worlds[k])
	}
	for _, u := range units {
		ch <- u
	}
	close(ch)
	wg.Wait()
	w := worlds[0]
	ok, vn := w.honestConnect(w.server)
	semit(sevent{Ev: "V", ID: -1, World: "end", Ok: ok, Note: vn})
	ok, vn = w.honestConnect(w.client)
	semit(sevent{Ev: "V", ID: -1, World: "end-chain", Ok: ok, Note: vn})
	semit(sevent{Ev: "E", ID: -1, World: "end", Ok: true})
}
