-------------------------- MODULE Trace_HostileSocks --------------------------
(* Validates the event stream of the SOCKS5 hostile-input driver: S = a member of the language is about to be presented to a real   *)
(* endpoint (world = which parser it reaches), R = the endpoint dealt with it, V = an honest user of the same endpoint was served,  *)
(* Crash = the process died (appended by the supervisor together with the units in flight).                                         *)
EXTENDS Integers, Sequences, FiniteSets, TLC, Json, IOUtils
VARIABLES l, alive, victim
HS == INSTANCE HostileSocks
Trace == ndJsonDeserialize(IOEnv.VERIF_TRACE)
Init == l = 1 /\ alive = TRUE /\ victim = "served"
Next == /\ l <= Len(Trace) /\ l' = l + 1
        /\ LET r == Trace[l] IN
           /\ alive' = (alive /\ r.ev # "Crash")
           /\ victim' = IF r.ev = "V" THEN (IF r.ok THEN "served" ELSE "refused") ELSE victim
Spec == Init /\ [][Next]_<<l, alive, victim>>
R == Trace[l - 1]
Seen == l > 1
NoCrash == HS!Alive
VictimKeepsBeingServed == HS!VictimServed
\* conformance: the unit is a hostile member of the class the specification names; the handler came back
Class(k) == CASE k = "greeting" -> HS!Greetings [] k = "authreq" -> HS!AuthReqs [] k = "reply2" -> HS!ShortReplies
              [] k = "message" -> HS!Messages [] k = "datagram" -> HS!Datagrams
Proj(m) == CASE m.k = "greeting" -> [k |-> m.k, ver |-> m.ver, nm |-> m.nm, have |-> m.have]
             [] m.k = "authreq" -> [k |-> m.k, ver |-> m.ver, ulen |-> m.ulen, uhave |-> m.uhave, plen |-> m.plen, phave |-> m.phave]
             [] m.k = "reply2" -> [k |-> m.k, ver |-> m.ver, code |-> m.code, cut |-> m.cut, extra |-> m.extra]
             [] m.k = "message" -> [k |-> m.k, ver |-> m.ver, code |-> m.code, rsv |-> m.rsv, atyp |-> m.atyp, addr |-> m.addr, cut |-> m.cut, tail |-> m.tail]
             [] m.k = "datagram" -> [k |-> m.k, rsv |-> m.rsv, frag |-> m.frag, atyp |-> m.atyp, addr |-> m.addr, cut |-> m.cut, data |-> m.data]
InLanguage == (Seen /\ R.ev = "S") => (Proj(R.m) \in Class(R.m.k) /\ ~HS!WellFormed(Proj(R.m)))
HandlerReturns == (Seen /\ R.ev = "R") => R.ok
TraceAccepted == TLCGet("stats").diameter - 1 = Len(Trace)
=============================================================================
