---------------------------- MODULE UserDiscovery ----------------------------
(***************************************************************************)
(* Attribution of a first segment to a registered user                     *)
(* (pkg/protocol/serveruser/registry.go): immutable user generation,       *)
(* per-source cache of recently authenticated users, 4-byte user hint in   *)
(* the nonce.  tryState's candidate order is modelled exactly:             *)
(*   1 cached users whose name matches the hint                            *)
(*   2 all registered users whose name matches the hint (name order)       *)
(*   -- stop here when hints are mandatory --                              *)
(*   3 cached users that do not match the hint                             *)
(*   4 all other registered users (name order)                             *)
(* each user tried at most once; the first whose credential opens the      *)
(* metadata wins.                                                          *)
(***************************************************************************)
EXTENDS Integers, Sequences, FiniteSets, TLC, Json

Names == <<"a", "b", "c">>                  \* in registry (name) order
NameSet == {"a", "b", "c"}
None == "none"

CONSTANT ScanHintsAlways   \* TRUE = the code: phase 2 always runs.  FALSE = phase 2 skipped when a cached user matched the hint

\* credential of each name; a and b may share one
Cred(shared, n) == IF n = "a" THEN "k1" ELSE IF n = "b" THEN (IF shared THEN "k1" ELSE "k2") ELSE "k3"
SegCreds == {"k1", "k2", "k3", "kx"}        \* kx = a credential nobody registered
HintSets == {{}, {"a"}, {"b"}, {"c"}, {"a", "b"}}   \* names whose 4-byte hint equals the segment's (a and b are a colliding pair)

RECURSIVE FirstOK(_, _, _, _)
\* first name of sequence `cands` that is registered, not yet tried, and whose credential is `cred`; also returns the tried set
FirstOK(cands, reg, ok, tried) ==
  IF cands = <<>> THEN [hit |-> None, tried |-> tried]
  ELSE LET n == Head(cands) IN
       IF n \notin reg \/ n \in tried THEN FirstOK(Tail(cands), reg, ok, tried)
       ELSE IF ok[n] THEN [hit |-> n, tried |-> tried \cup {n}]
       ELSE FirstOK(Tail(cands), reg, ok, tried \cup {n})

Filter(seq, P(_)) == SelectSeq(seq, P)

Discover(shared, reg, mandatory, cache, cred, hint) ==
  LET ok == [n \in NameSet |-> Cred(shared, n) = cred]
      inHint(n) == n \in hint
      notHint(n) == n \notin hint
      p1 == FirstOK(Filter(cache, inHint), reg, ok, {})
      cachedHintTried == p1.tried # {}
      p2 == IF p1.hit # None THEN p1
            ELSE IF ~ScanHintsAlways /\ cachedHintTried THEN p1
            ELSE FirstOK(Filter(Names, inHint), reg, ok, p1.tried)
      p3 == IF p2.hit # None \/ mandatory THEN p2 ELSE FirstOK(Filter(cache, notHint), reg, ok, p2.tried)
      p4 == IF p3.hit # None \/ mandatory THEN p3 ELSE FirstOK(Filter(Names, notHint), reg, ok, p3.tried)
  IN p4.hit

Regs == (SUBSET NameSet) \ {{}}
Caches(reg) == {<<>>} \cup {<<p>> : p \in reg} \cup UNION {{<<p, q>> : q \in reg \ {p}} : p \in reg}

Auths(shared, reg, cred) == {n \in reg : Cred(shared, n) = cred}

\* C07
AuthOK == \A shared \in BOOLEAN, reg \in Regs, m \in BOOLEAN, cred \in SegCreds, hint \in HintSets : \A cache \in Caches(reg) :
   LET r == Discover(shared, reg, m, cache, cred, hint) IN
   /\ (r # None => r \in Auths(shared, reg, cred))                                   \* attributed to an authenticating user
   /\ (Auths(shared, reg, cred) = {} => r = None)                                    \* no credential: rejected
   /\ (m /\ Auths(shared, reg, cred) \cap hint = {} => r = None)                      \* mandatory hint naming no such user: rejected
   /\ (Auths(shared, reg, cred) \cap hint # {} => r \in hint)                        \* hint preference
   /\ (~m /\ Auths(shared, reg, cred) # {} => r # None)                              \* an authenticating user exists: accepted
CacheIndependent == \A reg \in Regs, m \in BOOLEAN, cred \in SegCreds, hint \in HintSets : \A cache \in Caches(reg) :
   Discover(FALSE, reg, m, cache, cred, hint) = Discover(FALSE, reg, m, <<>>, cred, hint)

Table == UNION { UNION { { [shared |-> shared, reg |-> reg, mandatory |-> m, cache |-> cache, cred |-> cred, hint |-> hint,
                            user |-> Discover(shared, reg, m, cache, cred, hint)] :
                           m \in BOOLEAN, cred \in SegCreds, hint \in HintSets, cache \in Caches(reg) } : reg \in Regs } : shared \in BOOLEAN }

VARIABLE x
Init == x = 0
Next == x' = x /\ FALSE
=============================================================================
