-------------------------- MODULE Trace_ProfileMTU --------------------------
(* C14 for clients built from a profile: the longest datagram the real client emitted never exceeds the MTU the profile asks for.   *)
EXTENDS Integers, Sequences, TLC, Json, IOUtils
VARIABLES l, x
Trace == ndJsonDeserialize(IOEnv.VERIF_TRACE)
Init == l = 1 /\ x = 0
Next == l <= Len(Trace) /\ l' = l + 1 /\ UNCHANGED x
Spec == Init /\ [][Next]_<<l, x>>
R == Trace[l - 1]
ProfileFitsMTU == (l > 1 /\ R.note = "") => (R.longest > 0 /\ R.longest <= R.effective)
TraceAccepted == TLCGet("stats").diameter - 1 = Len(Trace)
=============================================================================
