CONSTANTS
  CacheChecksEpoch = TRUE
INIT Init
NEXT Next
INVARIANTS CacheSlot
CHECK_DEADLOCK FALSE
