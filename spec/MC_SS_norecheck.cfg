CONSTANTS
  Sess = {1}
  NC = 2
  NS = 0
  Frag = FALSE
  HoldMutex = TRUE
  CloseC = TRUE
  Tampers = 0
  Recheck = FALSE
INIT Init
NEXT Next
INVARIANTS CloseNoTrunc
CHECK_DEADLOCK FALSE
