SPECIFICATION Spec
INVARIANTS Understood EchoExact NoFailure ServerLEOnlyAfterClient
POSTCONDITION TraceAccepted
CHECK_DEADLOCK FALSE
