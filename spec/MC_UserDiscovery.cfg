CONSTANTS
  ScanHintsAlways = TRUE
INIT Init
NEXT Next
INVARIANTS AuthInv CacheInv
CHECK_DEADLOCK FALSE
