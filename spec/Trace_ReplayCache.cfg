SPECIFICATION TraceSpec
INVARIANTS RealNoMiss RealNoFalsePositive
POSTCONDITION TraceAccepted
CHECK_DEADLOCK FALSE
