CONSTANTS
  Items = {"x", "y", "z"}
  Tags = {"A", "B"}
  Cap = 2
  Interval = 2
  Steps = {0, 1, 2, 3, 5}
  CarryTag = TRUE
INIT MCInit
NEXT MCNext
VIEW View
INVARIANTS TypeOK NoMiss NoFalsePositive DumpState
ACTION_CONSTRAINT DumpTrans
CHECK_DEADLOCK FALSE
