SPECIFICATION Spec
INVARIANTS InLanguage
POSTCONDITION TraceAccepted
CHECK_DEADLOCK FALSE
