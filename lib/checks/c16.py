"""C16 - traffic-pattern settings are honoured on the wire; implicit ones are stable.

design spec   spec/TrafficPattern.tla: fields Unset|value, Validate as coded, Effective fills only unset fields from
              draws over the coded intervals; TLC checks GenerationSound (explicit kept, complete, valid) for every
              original of the nonce group (the only cross-field constraint) and of the remaining fields, and shows the
              pre-fix generator (implicit minLen above an explicit maxLen) violating it
spec -> code  every exported original x seeds is given to the real trafficpattern.NewConfig; TLC validates what came back
              (Trace_TrafficPattern: ExplicitKept, ImplicitInRange, EffectiveValid, Deterministic, SurvivesEncoding)
code -> spec  sessions under explicit patterns, independently per side and per transport; TLC evaluates PadOK, NonceOK and
              LEOK on every emitted segment (decoded by the reference codec); the effective pattern of sampled originals
              is run end to end
"""
import json
import os
import random
import shutil

import sessions
import vlib
from vlib import Inconclusive

INVS = ["PadOK", "NonceOK", "LEOK", "ReadExact", "Completes", "Decodable"]
TP_INVS = ("Constructed", "ExplicitKept", "ImplicitInRange", "EffectiveValid", "Deterministic", "SurvivesEncoding")


def originals(ctx):
    res = vlib.tlc("MC_TrafficPattern", "MC_TrafficPattern", timeout=900, tags=("ORIG",))
    if res.violated or res.error or not res.prints:
        raise Inconclusive("TrafficPattern model: %s %s\n%s" % (res.violated, res.error, res.out[-1500:]))
    ctx.coverage["states"] += 1
    o = res.prints[0][1]
    ctx.coverage["transitions"] += len(o["nonce"]) + len(o["other"])
    ctx.coverage.setdefault("tlc_runs", []).append({"what": "TrafficPattern GenerationSound over %d nonce-group and %d other-group originals"
                                                   % (len(o["nonce"]), len(o["other"])), "wall_s": round(res.wall, 1)})
    pre = vlib.tlc("MC_TrafficPattern", "MC_TrafficPattern_prefix", timeout=900, tags=("ORIG",))
    ctx.coverage["model_detects_prefix_defect"] = pre.violated == "NonceSound"
    if pre.violated != "NonceSound":
        raise Inconclusive("sanity: pre-fix generator should violate NonceSound, got %s %s" % (pre.violated, pre.error))
    return o


def config_binding(ctx, orig, wd):
    rnd = random.Random(ctx.seed)
    seeds = [-1, 0, 1, ctx.seed, 12345, 2147483647] if not ctx.thorough() else [-1] + list(range(0, 40)) + [2147483647]
    rows = []
    others = orig["other"]
    for p in orig["nonce"]:
        for sd in (seeds if ctx.thorough() else sorted(set(rnd.sample(seeds, 3)) | {0})):
            q = dict(p)
            if rnd.random() < 0.5:      # combine with a random assignment of the other fields
                o = rnd.choice(others)
                for f in ("tcpEnable", "sleep", "mid", "end", "mode", "rot"):
                    q[f] = o[f]
            q["seed"] = sd
            rows.append(q)
    for p in (others if ctx.thorough() else rnd.sample(others, 600)):
        q = dict(p)
        q["seed"] = rnd.choice(seeds)
        rows.append(q)
    pin, pout = os.path.join(wd, "orig.ndjson"), os.path.join(wd, "cfg.ndjson")
    vlib.write_ndjson(pin, rows)
    rc, log, _ = vlib.go_test("./c16/", "TestConfigs$", env={"VERIF_IN": pin, "VERIF_OUT": pout}, timeout=900)
    if rc != 0 or not os.path.exists(pout):
        raise Inconclusive("driver TestConfigs failed:\n" + log[-3000:])
    got = vlib.read_ndjson(pout)
    if len(got) != len(rows):
        raise Inconclusive("driver returned %d of %d configurations" % (len(got), len(rows)))
    # the same originals on "another host" (private UTS namespace, other host name): with an explicit seed the effective pattern must
    # be the same there - a pattern is shared between machines by sharing its seed
    pout2 = os.path.join(wd, "cfg_otherhost.ndjson")
    rc2, log2, _ = vlib.go_test("./c16/", "TestConfigs$", env={"VERIF_IN": pin, "VERIF_OUT": pout2}, timeout=900, hostname="verif-other-host")
    if rc2 == 0 and os.path.exists(pout2):
        got2 = vlib.read_ndjson(pout2)
        if len(got2) == len(got):
            differ_unseeded = 0
            for g, g2 in zip(got, got2):
                if g["o"].get("seed", -1) != -1 and g["err"] == "" and g["e"] != g2["e"]:
                    g["det"] = False
                    g["note"] = "effective pattern differs on a host with another name"
                elif g["o"].get("seed", -1) == -1 and g["e"] != g2["e"]:
                    differ_unseeded += 1
            ctx.coverage["compared_across_host_names"] = len(got)
            ctx.coverage["unseeded_patterns_that_differ_across_hosts"] = differ_unseeded
            vlib.write_ndjson(pout, got)
    else:
        ctx.notes.append("second host name not available (unshare --uts failed); cross-host comparison skipped")
    ctx.coverage["evaluations"] += len(got)
    ctx.coverage["distinct_nontrivial"] += len(rows)
    ctx.sample({"kind": "original -> effective (real NewConfig)", "record": got[len(got) // 2]})
    remaining = pout
    for attempt in range(4):
        res = vlib.tlc("Trace_TrafficPattern", workers=1, timeout=1500, env={"VERIF_TRACE": remaining}, keep_out=True)
        if res.violated in TP_INVS:
            import re
            m = re.findall(r"/\\ l = (\d+)", res.trace[-1] if res.trace else "")
            line = int(m[-1]) - 1 if m else 1
            cur = vlib.read_ndjson(remaining)
            bad = cur[line - 1]
            o = bad["o"]
            sig = "C16:config:%s" % res.violated
            if res.violated in ("EffectiveValid", "ImplicitInRange") and o["max"] != -1 and o["min"] == -1:
                sig = "C16:config:explicit-maxLen-below-implicit-minLen"
            rp = ctx.save_replay("config_%s_%d.json" % (res.violated, attempt), bad)
            ctx.report("%s: real NewConfig on original %s gave effective %s (valid=%s det=%s rt=%s err=%r)"
                       % (res.violated, o, bad["e"], bad["valid"], bad["det"], bad["rt"], bad["err"]), rp, sig)
            rest = os.path.join(wd, "cfg.rest%d.ndjson" % attempt)
            vlib.write_ndjson(rest, cur[line:])
            if not cur[line:]:
                break
            remaining = rest
            continue
        if res.violated or res.error or not res.finished:
            raise Inconclusive("Trace_TrafficPattern: %s %s\n%s" % (res.violated, res.error, res.out[-1500:]))
        ctx.coverage["states"] += res.distinct
        ctx.coverage["traces_validated_against_impl"] += res.distinct - 1
        break
    return got


def wire_scenarios(ctx, got):
    rnd = random.Random(ctx.seed + 16)
    P = sessions.pattern
    explicit = [
        P(pad_mid=0, pad_end=0), P(pad_mid=255, pad_end=0), P(pad_mid=200, pad_end=7), P(pad_mid=64, pad_end=1),
        P(pad_mid=0, pad_end=255), P(pad_mid=1, pad_end=1), P(pad_mid=255, pad_end=255),
        P(nonce={"type": "NONCE_TYPE_PRINTABLE", "minLen": 12, "maxLen": 12, "applyToAllUDPPacket": True}),
        P(nonce={"type": "NONCE_TYPE_PRINTABLE", "minLen": 6, "maxLen": 8, "applyToAllUDPPacket": True}),
        P(nonce={"type": "NONCE_TYPE_PRINTABLE", "minLen": 9, "applyToAllUDPPacket": True}),
        P(nonce={"type": "NONCE_TYPE_PRINTABLE_SUBSET", "minLen": 12, "maxLen": 12, "applyToAllUDPPacket": True}),
        P(nonce={"type": "NONCE_TYPE_PRINTABLE_SUBSET", "minLen": 7, "applyToAllUDPPacket": True}),
        P(nonce={"type": "NONCE_TYPE_PRINTABLE", "maxLen": 12, "minLen": 12, "applyToAllUDPPacket": False}),
        P(nonce={"type": "NONCE_TYPE_FIXED", "customHexStrings": ["000102030405060708090a0b"], "applyToAllUDPPacket": True}),
        P(nonce={"type": "NONCE_TYPE_FIXED", "customHexStrings": ["00010203", "a1a2a3a4a5a6a7a8a9aaabac", "ff"], "applyToAllUDPPacket": True}),
        P(nonce={"type": "NONCE_TYPE_RANDOM", "minLen": 12, "maxLen": 12}),
        P(tcpfrag={"enable": True, "maxSleepMs": 0}),
        P(le_mode="LOW_ENTROPY_MODE_32", le_rot="LOW_ENTROPY_MASK_ROTATE_RIGHT_7"),
        P(le_mode="LOW_ENTROPY_MODE_56", le_rot="LOW_ENTROPY_MASK_ROTATE_LEFT_15"),
        P(le_mode="LOW_ENTROPY_MODE_OFF"),
        P(le_mode="LOW_ENTROPY_MODE_40", pad_mid=3, pad_end=250, nonce={"type": "NONCE_TYPE_PRINTABLE", "minLen": 12, "maxLen": 12, "applyToAllUDPPacket": True}),
    ]
    out = []
    k = 0
    combos = [(c, s) for c in explicit for s in explicit]
    rnd.shuffle(combos)
    n = 70 if not ctx.thorough() else len(combos)
    # every explicit pattern appears at least once on each side and transport
    base = [(c, rnd.choice(explicit)) for c in explicit] + [(rnd.choice(explicit), s) for s in explicit]
    for c, s in base + combos[:n]:
        for tr in (("tcp", "udp") if k % 3 else ("udp", "tcp")):
            if len(out) >= (2 * len(base) + n):
                break
            sizes = [700, 1500, 9] if tr == "udp" else [700, 33000, 9]
            out.append({"id": "pat/%d-%s" % (k, tr), "transport": tr, "mtu": rnd.choice([1280, 1400, 1500]), "cpat": c, "spat": s,
                        "chunk": -1 if tr == "tcp" else 0, "loss": 10 if tr == "udp" else 0, "seed": ctx.seed + k, "limit": 900,
                        "expect": "complete", "multiplex": 0,
                        "sessions": sessions.keep_open([{"c": [["w", x] for x in sizes] + [["rn", sum(sizes)]],
                                                         "s": [["rn", sum(sizes)]] + [["w", x] for x in sizes]},
                                                        {"c": [["w", 300], ["rn", 300]], "s": [["rn", 300], ["w", 300]]}])})
            k += 1
    # effective patterns of sampled originals (incl. implicit parts) must run without error
    effs = [r for r in got if r["err"] == "" and r["valid"]]
    for r in (rnd.sample(effs, min(len(effs), 24 if not ctx.thorough() else 400))):
        e = r["e"]
        pj = {"seed": r["o"]["seed"] if r["o"]["seed"] >= 0 else 1, "unlockAll": bool(r["o"]["unlock"]),
              "tcpFragment": {"enable": bool(e["tcpEnable"]), "maxSleepMs": 0 if e["tcpEnable"] else e["sleep"]},
              "nonce": {"type": e["type"], "applyToAllUDPPacket": bool(e["apply"]), "minLen": e["min"], "maxLen": e["max"]},
              "padding": {"maxMiddlePaddingLen": e["mid"], "maxEndPaddingLen": e["end"]},
              "lowEntropy": {"mode": e["mode"], "maskRotation": e["rot"]}}
        if e["type"] == 3:
            pj["nonce"]["customHexStrings"] = ["00010203", "a1a2a3a4a5a6a7a8a9aaabac"]
        tr = ["tcp", "udp"][k % 2]
        out.append({"id": "eff/%d-%s" % (k, tr), "transport": tr, "mtu": 1400, "cpat": json.dumps(pj), "spat": json.dumps(pj),
                    "seed": ctx.seed + k, "limit": 900, "expect": "complete",
                    "sessions": sessions.keep_open([{"c": [["w", 1200], ["w", 3000], ["rn", 2000]], "s": [["rn", 4200], ["w", 2000]]}])})
        k += 1
    return out


def run(ctx):
    ctx.level = "model_checking"
    ctx.coverage["rule"] = ("every original exported by TLC (all valid assignments of the nonce group x unlockAll; all of the other "
                            "fields) x seeds goes through the real NewConfig and TLC validates the result; explicit patterns "
                            "are then run on both transports and every emitted segment is checked. distinct_nontrivial = "
                            "originals + wire scenarios")
    ctx.assumptions += ["the intervals of implicit draws are those written in apis/trafficpattern/config.go (the documentation "
                        "only says 'limited' vs 'all options')", "virtual time (testing/synctest)"]
    wd = vlib.scratch_dir("verif-c16-")
    try:
        orig = originals(ctx)
        got = config_binding(ctx, orig, wd)
        scen = wire_scenarios(ctx, got)
        ctx.coverage["distinct_nontrivial"] += len(scen)
        trace = sessions.check_traces(ctx, scen, wd, "c16", INVS, timeout=3000)
        sessions.sample_trace(ctx, trace, None, n=10)
    finally:
        shutil.rmtree(wd, ignore_errors=True)


def replay(ctx, path):
    rp = json.load(open(path))
    if "scenario" in rp:
        wd = vlib.scratch_dir("verif-c16r-")
        try:
            sessions.check_traces(ctx, [rp["scenario"]], wd, "replay", INVS)
        finally:
            shutil.rmtree(wd, ignore_errors=True)
    else:
        print("config record:", rp)
