SPECIFICATION Spec
INVARIANTS InLanguage HandlerReturns
POSTCONDITION TraceAccepted
CHECK_DEADLOCK FALSE
